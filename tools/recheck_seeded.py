#!/usr/bin/env python3
"""recheck_seeded.py <id>... : re-run the property's quick check against kept seeded changes and update meta.json"""
import json, os, shutil, subprocess, sys, time
from pathlib import Path
VERIF = Path('/verif'); PY = '/venv/bin/python'
def sh(cmd, cwd=None, env=None, timeout=3000):
    r = subprocess.run(cmd, shell=True, cwd=cwd, env=env, capture_output=True, text=True, timeout=timeout)
    return r.returncode, r.stdout + r.stderr
ids = [a for a in sys.argv[1:] if not a.startswith('--')]
tier = 'thorough' if '--thorough' in sys.argv else 'quick'
budget = next((a.split('=')[1] for a in sys.argv if a.startswith('--budget=')), None)
if not ids:
    ids = sorted(p.name for p in (VERIF / 'seeded').iterdir())
for sid in ids:
    dest = VERIF / 'seeded' / sid
    meta = json.loads((dest / 'meta.json').read_text())
    prop = next((a.split('=')[1] for a in sys.argv if a.startswith('--check=')), None) or meta.get('property_checked_by') or meta['property']
    src = Path('/dev/shm/replicat-verif-seeded') / sid
    shutil.rmtree(src, ignore_errors=True); src.mkdir(parents=True)
    for name in ('replicat', 'src'):
        shutil.copytree(Path('/repo') / name, src / name, ignore=shutil.ignore_patterns('__pycache__', 'tests'))
    rc, out = sh(f'git apply --exclude="replicat/tests/*" {dest / "patch.diff"}', cwd=src)
    if rc != 0:
        rc, out = sh(f'patch -p1 -i {dest / "patch.diff"}', cwd=src)
    if rc != 0:
        print(sid, 'PATCH DOES NOT APPLY to the current tree'); continue
    env = dict(os.environ, REPLICAT_SRC=str(src), VERIF_EVIDENCE_DIR=str(src / 'ev'), VERIF_REPLAY_DIR=str(src / 'rp'),
               VERIF_SCRATCH=str(src / 'scratch'), VERIF_CASE_TIMEOUT='250')
    if budget:
        env['VERIF_BUDGET_S'] = budget
    t0 = time.time()
    rc, out = sh(f'{PY} /verif/run.py check {prop} --tier {tier}', env=env)
    lines = [l for l in out.splitlines() if l.startswith('VIOLATION') or l.strip().startswith('class=')]
    res = {'check': prop, 'tier': tier, 'exit': rc, 'seconds': round(time.time() - t0), 'report': [l[:400] for l in lines[:4]]}
    meta['detected_by'] = [r for r in meta.get('detected_by', []) if r['check'] != prop]
    meta['missed_by'] = [r for r in meta.get('missed_by', []) if r['check'] != prop]
    (meta['detected_by'] if rc == 1 else meta['missed_by']).append(res)
    (dest / 'meta.json').write_text(json.dumps(meta, indent=1))
    print(f'{sid}: {prop} exit={rc} in {res["seconds"]}s', (lines[1][:260] if len(lines) > 1 else out.strip().splitlines()[-1][:200]))
    shutil.rmtree(src, ignore_errors=True)

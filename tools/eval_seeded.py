#!/usr/bin/env python3
"""eval_seeded.py <worktree> <PROP> [<id>] [--checks C01,C09]
Confirms a sub-agent's seeded change (tests pass with it; demo fails with it and passes without), stores it under
/verif/seeded/<id>/ and runs the property's quick check against a scratch copy of /repo with the patch applied."""
import json
import os
import shutil
import subprocess
import sys
import time
from pathlib import Path

VERIF = Path('/verif')
PY = '/venv/bin/python'


def sh(cmd, cwd=None, env=None, timeout=1800):
    r = subprocess.run(cmd, shell=True, cwd=cwd, env=env, capture_output=True, text=True, timeout=timeout)
    return r.returncode, (r.stdout + r.stderr)


def main():
    wt, prop = Path(sys.argv[1]), sys.argv[2]
    args = sys.argv[3:]
    sid = next((a for a in args if not a.startswith('--')), prop + '-agent1')
    checks = [prop]
    for a in args:
        if a.startswith('--checks='):
            checks = a.split('=', 1)[1].split(',')
    sd = wt / 'SEEDED'
    patch = sd / 'patch.diff'
    meta = {'id': sid, 'property': prop, 'source': 'sub-agent given only the property text and a scratch worktree', 'ran': []}
    # 1. confirm in a fresh scratch worktree
    scratch = Path('/tmp/confirm-' + sid)
    sh(f'git -C /repo worktree remove --force {scratch}')
    rc, out = sh(f'git -C /repo worktree add -q --detach {scratch} HEAD')
    assert rc == 0, out
    try:
        shutil.copytree(sd, scratch / 'SEEDED')
        penv = dict(os.environ, PYTHONPATH=str(scratch))
        rc0, out0 = sh(f'{PY} SEEDED/demo.py', cwd=scratch, env=penv, timeout=600)
        meta['ran'].append({'cmd': 'demo.py on the unchanged source', 'exit': rc0})
        rc, out = sh(f'git apply SEEDED/patch.diff', cwd=scratch)
        assert rc == 0, 'patch does not apply: ' + out
        rct, outt = sh(f'{PY} -m pytest -q -p no:cacheprovider replicat/tests', cwd=scratch, env=penv, timeout=1200)
        meta['ran'].append({'cmd': 'test-suite with the patch', 'exit': rct, 'tail': outt.strip().splitlines()[-1] if outt.strip() else ''})
        rc1, out1 = sh(f'{PY} SEEDED/demo.py', cwd=scratch, env=penv, timeout=600)
        meta['ran'].append({'cmd': 'demo.py with the patch', 'exit': rc1, 'tail': out1.strip().splitlines()[-3:]})
        meta['confirmed'] = (rc0 == 0 and rct == 0 and rc1 != 0)
    finally:
        sh(f'git -C /repo worktree remove --force {scratch}')
    print(f'{sid}: confirmed={meta["confirmed"]} (demo clean={rc0}, tests={rct}, demo patched={rc1})')
    if not meta['confirmed']:
        print(json.dumps(meta, indent=1))
        return 2
    # 2. keep it
    dest = VERIF / 'seeded' / sid
    shutil.rmtree(dest, ignore_errors=True)
    dest.mkdir(parents=True)
    for f in ('patch.diff', 'demo.py', 'notes.md'):
        if (sd / f).exists():
            shutil.copy(sd / f, dest / f)
    # 3. run the checks against it
    src = Path('/dev/shm/replicat-verif-seeded') / sid
    shutil.rmtree(src, ignore_errors=True)
    src.mkdir(parents=True)
    for name in ('replicat', 'src'):
        shutil.copytree(Path('/repo') / name, src / name, ignore=shutil.ignore_patterns('__pycache__', 'tests'))
    rc, out = sh(f'git apply --exclude="replicat/tests/*" {patch}', cwd=src)
    if rc != 0:
        rc, out = sh(f'patch -p1 -i {patch}', cwd=src)
    assert rc == 0, 'patch does not apply to the copy: ' + out
    meta['detected_by'] = []
    meta['missed_by'] = []
    for c in checks:
        env = dict(os.environ, REPLICAT_SRC=str(src), VERIF_EVIDENCE_DIR=str(src / 'ev'), VERIF_REPLAY_DIR=str(src / 'rp'),
                   VERIF_SCRATCH=str(src / 'scratch'), VERIF_CASE_TIMEOUT='250')
        t0 = time.time()
        rc, out = sh(f'{PY} /verif/run.py check {c} --tier quick', env=env, timeout=3000)
        lines = [l for l in out.splitlines() if l.startswith('VIOLATION') or l.strip().startswith('class=')]
        res = {'check': c, 'tier': 'quick', 'exit': rc, 'seconds': round(time.time() - t0), 'report': [l[:400] for l in lines[:4]]}
        meta['ran'].append({'cmd': f'run.py check {c} --tier quick (REPLICAT_SRC = /repo + patch)', 'exit': rc})
        (meta['detected_by'] if rc == 1 else meta['missed_by']).append(res)
        print(f'  {c}: exit={rc} in {res["seconds"]}s', (lines[1][:300] if len(lines) > 1 else out.strip().splitlines()[-1][:300]))
    notes = (sd / 'notes.md').read_text() if (sd / 'notes.md').exists() else ''
    meta['needs_to_manifest'] = notes[:1500]
    (dest / 'meta.json').write_text(json.dumps(meta, indent=1))
    shutil.rmtree(src, ignore_errors=True)
    return 0


if __name__ == '__main__':
    sys.exit(main())

#!/usr/bin/env python3
"""mkmutant.py <prop> <name> <file> : reads OLD\n====\nNEW from stdin, writes selftest/mutants/<prop>-<name>.diff"""
import difflib, sys
from pathlib import Path
prop, name, file = sys.argv[1:4]
old, new = sys.stdin.read().split('\n====\n')
new = new.rstrip('\n')
old = old.strip('\n')
src = Path('/repo', file).read_text()
assert src.count(old) == 1, (src.count(old), old)
dst = src.replace(old, new)
diff = ''.join(difflib.unified_diff(src.splitlines(True), dst.splitlines(True), 'a/' + file, 'b/' + file))
out = Path('/verif/selftest/mutants', f'{prop}-{name}.diff')
out.write_text(diff)
print(out, len(diff))

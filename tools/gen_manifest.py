#!/usr/bin/env python3
"""Regenerates MANIFEST.json from the check modules that exist under checks/."""
import ast
import json
from pathlib import Path

VERIF = Path(__file__).resolve().parent.parent
ALL = [json.loads(l)['id'] for l in (VERIF / 'properties.jsonl').read_text().splitlines() if l.strip()]

NA = {
    'C11': 'not applicable to deterministic simulation: a relation between outputs of a pure function on pairs of byte '
           'strings (no schedule, clock, fault, crash or interleaving can influence it; the environment-dependent aspects '
           'of the chunker - piece delivery and adjacent memory - are C10). See DESIGN.md section 7.',
    'C19': 'not applicable to deterministic simulation: a pure function of (argv, environ, config file text) evaluated once '
           'before any I/O, thread or timer exists; nothing for a scheduler or fault injector to decide. See DESIGN.md section 7.',
}


def consts(path):
    out = {}
    tree = ast.parse(path.read_text())
    for node in tree.body:
        if isinstance(node, ast.Assign) and len(node.targets) == 1 and isinstance(node.targets[0], ast.Name):
            try:
                out[node.targets[0].id] = ast.literal_eval(node.value)
            except Exception:
                pass
    return out


def main():
    checks = []
    claimed = set()
    for pid in ALL:
        p = VERIF / 'checks' / f'{pid.lower()}.py'
        if not p.exists():
            continue
        c = consts(p)
        if not c.get('REGISTERED', True):
            continue
        claimed.add(pid)
        checks.append({
            'property_id': pid,
            'quick_cmd': f'timeout 1500 /venv/bin/python /verif/run.py check {pid} --tier quick',
            'thorough_cmd': f'timeout 7200 /venv/bin/python /verif/run.py check {pid} --tier thorough',
            'evidence_file': f'/verif/evidence/{pid}.json',
            'replay_cmd_template': '/venv/bin/python /verif/run.py replay {path}',
            'engine': c.get('ENGINE', 'sim'),
            'level_claimed': {'category': c['LEVEL'], 'text': c.get('LEVEL_TEXT', c.get('RULE', '')),
                              'design_ref': c.get('DESIGN_REF', f'DESIGN.md section 6, {pid}')},
            'level_note': c.get('LEVEL_NOTE', '; '.join(c.get('ASSUMPTIONS', []))),
            'technique': c.get('TECHNIQUE', 'deterministic simulation with fault injection: seeded search over schedules/faults'),
        })
    na = []
    for pid in ALL:
        if pid in claimed:
            continue
        na.append({'property_id': pid, 'reason': NA.get(pid, 'not claimed yet: the simulation check for this property is not built/registered at this commit (see DESIGN.md section 11)')})
    m = {
        'version': 1,
        'setup_cmd': '/venv/bin/python /verif/run.py setup',
        'hooks': {
            'guard': 'REPLICAT_VERIF',
            'enable': 'none needed: every seam is a module attribute rebound from outside while a check runs (sim/install.py); /repo carries no hook code',
            'baseline_off_cmd': 'cd /repo && /venv/bin/python -m pytest -ra -q -p no:cacheprovider --timeout=900 --continue-on-collection-errors',
            'source_commits': [],
            'add_only': True,
        },
        'engines': [
            {'name': 'sim', 'path': '/verif/sim', 'serves_properties': sorted(claimed),
             'kind_free_text': 'deterministic simulator: seeded baton-passing scheduler over replicat\'s real threads, virtual-time asyncio loop, simulated locks/queues/executors/clocks/urandom, in-memory object store with latency/fault/crash injection, FS seam and fake S3/B2 services'},
        ],
        'checks': checks,
        'not_applicable': na,
        'notes': 'Exit codes: 0 held (possibly with KNOWN-FINDING lines), 1 VIOLATION, 2 harness error. VERIF_SEED selects the base seed; VERIF_BUDGET_S overrides the wall budget.',
    }
    (VERIF / 'MANIFEST.json').write_text(json.dumps(m, indent=1) + '\n')
    print('claimed', sorted(claimed))


if __name__ == '__main__':
    main()

#!/usr/bin/env python3
"""Rewrites the table of section 12.7 of DESIGN.md from seeded/*/meta.json (summaries live here)."""
import json
from pathlib import Path
V = Path('/verif')
SUMMARY = {
 'C01-agent1': 'visited-set in the directory walk skips directories reachable by two paths (symlinked dir next to the real one)',
 'C01-agent2': 'restore waits for writer futures with futures.wait(): a failed write into a restored file is dropped, restore reports success',
 'C02-agent1': 'delete: chunks_to_keep rebound per snapshot instead of accumulated (only the last snapshot\'s chunks are kept)',
 'C02-agent2': 'snapshot loader skips a listed snapshot whose download fails and whose exists() says no; clean/delete then collect its chunks',
 'C03-agent1': 'Local.upload_stream renames the temporary onto the object before the buffered data is flushed/closed',
 'C03-agent2': 'Local temporary name unique per process, not per upload: two workers uploading one location share the file',
 'C04-agent1': 'restore schedules downloads through an asyncio.wait window that discards exceptions of finished futures',
 'C05-agent1': 'producer skips encryption for a chunk already stored in this run; plaintext is uploaded if exists() then says no',
 'C05-agent2': 'same mechanism, found independently (keyed by chunk-table index)',
 'C06-agent1': 'delete with confirm=False skips the "different key" ownership check',
 'C07-agent1': 'file sort key loses the path tie-break: equal-sized files keep collection order, unchanged data re-chunks differently',
 'C08-agent1': 'delete keeps chunks by reference count == 1: a chunk shared by two deleted snapshots is left behind',
 'C08-agent2': 'blake2b adapter caches its keyed state without a lock: concurrent first MACs in loader threads get a wrong tag, snapshot skipped, chunks collected',
 'C09-agent1': 'per-file lock refcount incremented outside the global lock in restore',
 'C09-agent2': 'chunk producer started as a concurrent future: `queue.empty() or producer.done()` no longer atomic, last chunk lost at N=1',
 'C10-agent1': 'finality flag `not next_chunk`: an empty piece mid-stream is taken for the end of the stream',
 'C12-agent1': 'Local.upload_stream: rename moved to an else-clause, a failing rename is retried with the stream at EOF (empty object stored)',
 'C12-agent2': 'requires_auth: waiters no longer wait for the running re-authentication; concurrent calls burn their budget on the stale token',
 'C13-agent1': 'S3 listing sends the prefix only with the first page',
 'C14-agent1': 'JSON written with ensure_ascii=False + surrogateescape: non-UTF-8 file names make snapshot bodies invalid JSON',
 'C15-agent1': 'restore: a path whose newest version is empty stops counting as seen, an older version overwrites it',
 'C16-agent1': 'S3 streamed upload: rewind moved outside the retried function; retries send the tail / nothing under the old hash',
 'C17-agent1': 'init uploads the config before the private key section is encrypted: rejected nonce sizes leave a config behind',
 'C18-agent1': 'cached entry checked with truthiness: an empty cache entry skips verification and is parsed',
 'C18-agent2': 'cache entries written through a fixed `<entry>.tmp` name: two clients sharing a cache race on it',
 'C04-agent3': 'snapshot loader stores a downloaded snapshot in the cache before verifying it and no longer re-hashes cache hits',
 'C06-agent3': 'blake2b.derive truncates key material to 64 bytes: a BLAKE2b-KDF key unlocks with any pass-phrase sharing the first 64 bytes',
 'C07-agent3': 'per-snapshot cache of existence checks invalidated with the wrong key: every later occurrence of a new chunk is uploaded again',
 'C13-agent3': 'Local temporary is a predictable `.name.tmp`: two overlapping uploads of one name share it, a half-written file gets published',
 'C15-agent3': 'AEAD adapter remembers the last decryption key/cipher without a lock: loader threads decrypt with the wrong cipher, snapshot silently treated as foreign',
 'C16-agent3': 'SigV4 signing key cached until a locally computed end of day: west of UTC the old key signs requests after UTC midnight',
 'C17-agent3': 'same truncation of BLAKE2b key material as C06-agent3 (found independently)',
 'C20-agent3': 'limiter releases its lock while sleeping: concurrent streams sleep in parallel and the debt goes deeply negative',
 'C02-agent4': '`finally: return` in _delete_snapshot swallows a failed snapshot-object delete when the cache is disabled; chunks are collected anyway',
 'C03-agent4': 'delete removes each snapshot\'s chunks right after its own object: a chunk shared by two snapshots being deleted goes while the second is still listed',
 'C05-agent4': 'counter-based AEAD nonces restarting at 0 per adapter instance: with 64-bit nonces two processes reuse nonces under the user key',
 'C08-agent4': 'Local.list_files refactored so that a vanished sub-directory silently ends the listing early',
 'C09-agent4': 'slot acquisition tries asyncio.Queue.get_nowait() from the worker thread first (not thread-safe)',
 'C10-agent4': 'chunker carry-over buffer moved to an instance attribute: two live generators of one adapter share it',
 'C12-agent4': 'Local remembers directories it created and skips mkdir: a directory removed by another client\'s clean-up makes every retry fail',
 'C14-agent4': 'file extents fixed from the size seen at scan time: a file that grows or shrinks before it is read gets wrong ranges',
 'C18-agent4': '_delete_cached also removes the entry\'s (empty) directory: races with another client\'s mkdir + write',
 'C01-agent5': 'chunk producer started with executor.submit (same race as C09-agent2, found independently): at N=1 the last chunk is lost, small trees restore as empty files',
 'C04-agent5': 'per-instance memo of verified chunk digests: a second restore through the same Repository object skips the re-hash of freshly downloaded bytes',
 'C06-agent5': 'delete subtracts a shared-key user\'s chunk table from chunks_to_delete early: a snapshot of the caller loaded later re-adds unprotected chunks',
 'C09-agent5': 'producer checks the abort flag once per chunk instead of while waiting for room in the queue: a failure with a full queue hangs the snapshot',
 'C12-agent5': 'B2.authenticate forgets the current authorisation before the new one has arrived: calls starting during a refresh fail with AttributeError',
 'C13-agent5': 'B2 download URL helper drops quote(name) again',
 'C15-agent5': 'snapshots ordered by naive datetime.timestamp(): depends on the local time zone, wrong across a DST switch',
 'C16-agent5': 'follow_redirects plus a status hook that lets 3xx pass: httpx re-sends redirected requests unsigned / with the stale signature',
 'C17-agent5': 'nonce size rounded up on encrypt only: nonce_bits that are not a multiple of 8 are accepted but nothing can be decrypted',
 'C20-agent5': 'each wrapper credits the wall time since its previous call: with several streams the same interval is credited once per stream',
 'C02-agent6': 'per-instance set of chunk locations this object uploaded: exists() skipped for them; stale once another process deletes the chunk',
 'C03-agent6': 'per-instance set of chunks "being handled", never withdrawn when the command fails: a retry on the same object skips the missing chunk',
 'C05-agent6': 'repository config cached in the (per-user) cache directory: an encrypted repository is opened with the config of an unencrypted one and writes plaintext',
 'C07-agent6': 'snapshot loading bounded by an asyncio.wait(FIRST_COMPLETED) window that keeps one of the finished futures and drops the rest (>= 10 x concurrency snapshots)',
 'C08-agent6': 'B2.delete removes only the newest stored version (b2_delete_file_version) instead of hiding the name: an older upload of the chunk reappears',
 'C09-agent6': 'restore leaves its thread pools through `with loader, writer`: shutdown(wait=True) on the loop thread deadlocks with loaders waiting for the loop after a failed download',
 'C12-agent6': 'B2 upload URLs pooled and reused; a 401 on the upload endpoint (AuthRequired, not httpx.HTTPError) puts the dead pair back, every retry fails',
 'C13-agent6': 'Local.list_files: a prefix equal to an existing directory scans only that directory and drops siblings whose names extend it',
 'C14-agent6': 'restore: "already restored" tested against files_metadata instead of files_digests: an empty newest version is overwritten by an older one',
 'C18-agent6': 'ownership tag of a listed snapshot checked only on download, not for cache hits: another key\'s cached entry is decrypted with the wrong secret',
 'C01-agent7': 'path arguments lying "inside" another directory argument are pruned by string prefix without a separator: siblings such as photos-2023 next to photos are never walked',
 'C04-agent7': 'abort flag for a failed restore kept on the Repository object and never cleared: the next restore through the object downloads nothing and reports success',
 'C06-agent7': 'lru_cache on _decrypt_snapshot_body keyed by (self, contents): after unlock() with another key the object serves the previous user\'s decrypted bodies',
 'C10-agent7': 'native chunker cached per adapter and compared by the key OBJECT: a 16-byte bytearray key changed in place keeps cutting with the old key',
 'C15-agent7': 'per-object set of snapshot locations "already turned down" also remembers filter mismatches: a later command with another filter never sees them',
 'C16-agent7': 'rate limiter may return short reads + S3 payload hashing stops at the first short read: x-amz-content-sha256 covers a prefix of the body',
 'C17-agent7': 'repository config served from the per-user cache directory (same idea as C05-agent6, found independently)',
 'C20-agent7': 'one RateLimitedIO kept per Repository; set_limit() leaves write_limit at the first command\'s value: a later restore under a lower limit runs at the old one',
 'C02-agent8': 'S3 listing stops at the first page without a continuation token: a page answered 200 with an error body silently ends the listing (clean then deletes referenced chunks)',
 'C03-agent8': 'Local: PermissionError from the final rename is taken for a Windows race and swallowed: the upload reports success without an object',
 'C05-agent8': 'key output refactored; when the -o file exists the key is printed instead - with its private section still unencrypted',
 'C07-agent8': 'S3 listing: IsTruncated re-read per page with default false (same effect as C02-agent8, found independently)',
 'C08-agent8': 'chunk deletions bounded by a window whose last batch is awaited with a bare asyncio.wait: failed deletes are dropped, delete/clean report success',
 'C09-agent8': 'snapshot cancels its other workers when one fails: slots come back while executor calls are still running',
 'C12-agent8': 'backoff decorators get max_time=60 (wall clock incl. attempt time): on a slow link the second failure already ends the retries',
 'C13-agent8': 'Local path run through os.path.normpath: <symlink>/../<dir> addresses another directory than the OS resolves',
 'C14-agent8': 'restore_metadata picks the metadata variant with all(ns): a time-stamp of exactly 0 is taken for the legacy variant, KeyError',
 'C18-agent8': 'cache entries older than 10 minutes are trusted without re-hashing: an old torn entry breaks every command',
 'C01-agent9': 'restore keeps files sparse: an all-zero part of >= 4096 bytes is not written - also when it overlaps the old bytes of a shorter pre-existing file',
 'C04-agent9': 'chunks of >= 4 MiB are verified in the writer pool by a helper that returns a verdict nobody reads (unencrypted repositories)',
 'C06-agent9': 'clean defers the ownership check of unreferenced chunks to lambdas that all capture the last loop variables: one verdict for everybody',
 'C10-agent9': 'pieces over 64 MiB are fed to the cutter in steps, every step with the end-of-stream flag of the whole piece',
 'C15-agent9': 'time columns of list-files: the pre-1.3 (seconds) metadata variant goes through the nanosecond conversion',
 'C16-agent9': 'block size for rate-limited transfers refactored with min() instead of max(): below 16 x concurrency bytes/s the S3 body is empty under a full-payload hash',
 'C17-agent9': 'key files created with os.open(O_WRONLY | O_CREAT) without O_TRUNC: a shorter key over a longer file leaves a stale tail',
 'C20-agent9': 'pauses capped at 20 ms when called on a thread with a running event loop: with concurrency <= 3 the debt hits the cap and is forgiven',
 'C02-agent10': 'Local.upload_stream rewinds only if stream.seekable(): the rate-limited wrapper reports False, a retried copy stores the tail only',
 'C03-agent10': 'requires_auth: bounded re-authentication loop falls off its end and returns None instead of raising (B2 call "succeeds" without doing its work)',
 'C05-agent10': 'CLI log records routed through tqdm.write (stdout) instead of stderr: with -v / -vv passwords and the unencrypted private section land next to the key',
 'C07-agent10': 'read block of snapshot = min(concurrency x 4 MiB, 16 MiB): tail cuts of the same data differ between concurrency settings',
 'C08-agent10': 'listings advanced in batches of 10 000 through zip(iterator, range(n)): each full batch swallows one entry',
 'C09-agent10': 'producer settles repeated chunks itself, calling _chunk_done from the producer thread: racing creation of the per-file manifest entry',
 'C12-agent10': 'S3 upload_stream: after a transport error a HEAD with the same Content-Length counts as success (same length is not same bytes)',
 'C13-agent10': 'B2 error bodies only read when DEBUG logging is on: delete of a missing name dies with httpx.ResponseNotRead',
 'C14-agent10': 'zero-length ranges neither written nor restored: an empty file recorded with a [0,0] range is never created',
 'C18-agent10': 'cache entry hashed from one read and used from a second, unverified read: a concurrent writer truncating the entry in between',
 'C01-agent11': '"resumable restore": a target file that already has the recorded size and mtime is taken for restored and left alone',
 'C04-agent11': 'chunk verification moved into a helper that uses assert: under python -O unencrypted chunks are not verified at all',
 'C06-agent11': 'pass-phrases NFKC-normalised before the KDF: visibly different pass-phrases (2 vs superscript 2, full-width letters) unlock the same key',
 'C10-agent11': 'the chunker fetches the next piece before copying the current one into its buffer: producers that recycle their buffer lose data',
 'C15-agent11': 'restore builds the target path with PureWindowsPath: a backslash in a POSIX file name becomes a directory separator',
 'C16-agent11': 'aiter_chunks reads ahead in the default executor: a read still in flight when a retry rewinds the stream eats the first block of the retried body',
 'C17-agent11': 'unlock refuses scrypt keys above 1 GiB of work memory, init / add-key still issue them',
 'C20-agent11': 'debts below one millisecond are dropped instead of accumulated: many small blocks (or concurrency >= 63) are never throttled',
 'C02-agent12': 'requires_auth bounded loop falls off its end and returns None (same as C03-agent10, found independently)',
 'C03-agent12': 'a failed snapshot cancels its rate limiter, whose wrappers then report EOF: uploads still in flight commit truncated chunks',
 'C07-agent12': 'requires_auth (coroutine branch): the call repeated after re-authorisation drops its return value - exists() answers None, the chunk is uploaded again',
 'C08-agent12': 'delete builds the chunk locations as a one-shot map() that a DEBUG-only log line exhausts: with debug logging nothing is deleted',
 'C09-agent12': 'bare except around the workers became except Exception: a cancelled snapshot never sets the abort flag, the producer spins on a full queue',
 'C12-agent12': 'Local.upload_stream opens its temporary unbuffered: copyfileobj ignores short writes, a full disk truncates silently',
 'C13-agent12': 'Local.download_stream takes the length from stat() of the name before opening the file: a replacing upload in between mixes two versions',
 'C14-agent12': 'utcnow() replaced by fromtimestamp(time.time()): the recorded utc_timestamp is local time',
 'C18-agent12': 'snapshot-loader pool used as a context manager in an async generator: leaving it early joins the workers on the loop thread',
 'C20-agent1': 'transfer block size floor of 16000 bytes: below 32 kB/s each block owes more than the capped debt',
}
rows = []
for d in sorted((V / 'seeded').iterdir()):
    m = json.loads((d / 'meta.json').read_text())
    det = m.get('detected_by', [])
    if det:
        x = det[-1]
        cls = ''
        for r in x.get('report', []):
            if 'class=' in r:
                cls = r.split('class=')[1].split(' ')[0]
        caught = f"{x['check']} {x.get('tier', 'quick')} ({cls}, {x['seconds']} s)"
    elif m.get('history', '').startswith('NOT caught, by decision'):
        caught = 'not caught (by decision, see meta.json)'
    else:
        caught = 'MISSED by ' + ', '.join(x['check'] for x in m.get('missed_by', []))
    h = m.get('history', '')
    first = 'missed -> strengthened' if h.startswith(('First missed', 'Hard one', 'Same mechanism', 'First run ended', 'First "caught"')) else ('needed another check / fault kind' if h.startswith('Registered') else ('-' if h.startswith('NOT caught') else 'caught'))
    if m.get('history', '').startswith('Caught by the Local profile'):
        first = 'caught (by a profile built meanwhile)'
    rows.append(f"| {d.name} | {SUMMARY.get(d.name, m.get('summary', ''))} | {caught} | {first} |")
p = V / 'DESIGN.md'
s = p.read_text()
start = s.index('| id | change (one line) | caught by | first run |')
end = s.index('\n\nLessons that changed the machinery')
head = '| id | change (one line) | caught by | first run |\n|---|---|---|---|\n'
s = s[:start] + head + '\n'.join(rows) + s[end:]
p.write_text(s)
print(len(rows), 'rows')

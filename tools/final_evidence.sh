#!/bin/bash
# Re-runs every registered quick check in /verif against /repo and validates the evidence files.
cd /verif
fail=0
for c in $(python3 -c "import json;print(' '.join(x['property_id'] for x in json.load(open('MANIFEST.json'))['checks']))"); do
  VERIF_CASE_TIMEOUT=300 timeout 1500 /venv/bin/python run.py check $c --tier quick 2>&1 | grep -v "^KNOWN" | tail -1
  [ ${PIPESTATUS[0]} -ne 0 ] && fail=1
done
python3-vt - <<'PY'
import json, jsonschema, glob
sch = json.load(open('/root/.vp/EVIDENCE.schema.json'))
for f in sorted(glob.glob('/verif/evidence/*.json')):
    jsonschema.validate(json.load(open(f)), sch)
print('evidence valid:', len(glob.glob('/verif/evidence/*.json')))
PY
exit $fail

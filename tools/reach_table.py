#!/usr/bin/env python3
"""Rewrites the measured column of the table in DESIGN.md 12.3 from /verif/evidence/*.json (quick tier)."""
import json
import re
from pathlib import Path
V = Path('/verif')
p = V / 'DESIGN.md'
s = p.read_text()
start = s.index('| id | level | quick tier on the unchanged tree')
end = s.index('\n\n', start)
rows = s[start:end].splitlines()
out = rows[:2]
for r in rows[2:]:
    cells = [c.strip() for c in r.strip('|').split('|')]
    ev = V / 'evidence' / f'{cells[0]}.json'
    if ev.exists():
        d = json.loads(ev.read_text())
        c = d['coverage']
        cases, evals = c.get('cases', c['evaluations']), c['evaluations']
        def k(n):
            return f'{n / 1000:.1f} k' if n >= 1000 else str(n)
        m = f'{k(cases)} cases'
        if evals != cases:
            m += f', {k(evals)} evaluations'
        m += f' / {round(d["wall_s"])} s'
        v = c.get('interpreter_variant')
        if v:
            m += f' (incl. {v.get("cases")} cases under python -O)'
        cells[2] = m
    out.append('| ' + ' | '.join(cells) + ' |')
s = s[:start] + '\n'.join(out) + s[end:]
s = s.replace('quick tier on the unchanged tree (typical)', 'quick tier on the unchanged tree (last evidence run)')
p.write_text(s)
print('\n'.join(out[2:]))

#!/venv/bin/python
"""Entry point:  run.py setup | check <PROP> --tier quick|thorough | replay <file> | selftest ..."""
import argparse
import os
import sys
from pathlib import Path

VERIF = Path(__file__).resolve().parent
sys.path.insert(0, str(VERIF))
os.chdir(VERIF)


def main():
    from sim import runner
    runner.reexec_pinned()
    ap = argparse.ArgumentParser()
    sub = ap.add_subparsers(dest='cmd', required=True)
    sub.add_parser('setup')
    c = sub.add_parser('check')
    c.add_argument('prop')
    c.add_argument('--tier', default=os.environ.get('VERIF_TIER', 'quick'), choices=['quick', 'thorough'])
    c.add_argument('--seed', type=int, default=None)
    c.add_argument('--budget', type=float, default=None)
    c.add_argument('--max-runs', type=int, default=None)
    c.add_argument('--workers', type=int, default=None)
    r = sub.add_parser('replay')
    r.add_argument('path')
    o = sub.add_parser('one')
    o.add_argument('prop')
    o.add_argument('seed', type=int)
    o.add_argument('--tier', default='quick')
    st = sub.add_parser('selftest')
    st.add_argument('what', choices=['determinism', 'mutants', 'regressions', 'all'])
    st.add_argument('--props', default=None)
    st.add_argument('--seeds', type=int, default=40)
    args = ap.parse_args()
    if args.cmd == 'setup':
        from sim import selftest
        sys.exit(selftest.setup())
    if args.cmd == 'check':
        sys.exit(runner.check(args.prop.upper(), args.tier, base_seed=args.seed, budget_s=args.budget,
                              max_runs=args.max_runs, workers=args.workers))
    if args.cmd == 'replay':
        ok = runner.replay(args.path)
        sys.exit(1 if ok else (2 if ok is None else 0))
    if args.cmd == 'one':
        import json
        from sim import native
        native.import_replicat()
        mod = runner.get_check(args.prop.upper())
        case = mod.gen_case(args.seed, args.tier)
        res = mod.run_case(case)
        print(json.dumps({'case': case, 'result': res}, indent=1, default=repr)[:20000])
        sys.exit(1 if res.get('violations') else 0)
    if args.cmd == 'selftest':
        from sim import selftest
        sys.exit(selftest.main(args))


if __name__ == '__main__':
    main()

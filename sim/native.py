"""Builds /repo/src/adapters.cpp (unmodified) against a stand-in pybind11 header plus a
hand-written C-API glue, and registers the result as `_replicat_adapters` before replicat
is imported (pybind11 headers do not exist in this sandbox, see DESIGN.md 2.9)."""
import hashlib
import importlib.util
import os
import subprocess
import sys
import sysconfig
from pathlib import Path

VERIF = Path(__file__).resolve().parent.parent
NATIVE = VERIF / 'native'


def repo_src():
    return Path(os.environ.get('REPLICAT_SRC', '/repo'))


def build(verbose=False):
    cpp = repo_src() / 'src' / 'adapters.cpp'
    glue = NATIVE / 'glue.cpp'
    hdr = NATIVE / 'pybind11' / 'pybind11.h'
    h = hashlib.sha256()
    for p in (cpp, glue, hdr):
        h.update(p.read_bytes())
    h.update(sys.version.encode())
    key = h.hexdigest()[:20]
    outdir = VERIF / 'build' / key
    so = outdir / ('_replicat_adapters' + sysconfig.get_config_var('EXT_SUFFIX'))
    if so.exists():
        return so
    outdir.mkdir(parents=True, exist_ok=True)
    tmp = outdir / f'.tmp-{os.getpid()}.so'
    inc = sysconfig.get_paths()['include']
    cmd = ['g++', '-std=c++17', '-O2', '-shared', '-fPIC', '-mpclmul', '-msse2', '-msse4.1',
           f'-I{NATIVE}', f'-I{inc}', f'-DADAPTERS_CPP="{cpp}"', str(glue), '-o', str(tmp)]
    r = subprocess.run(cmd, capture_output=True, text=True)
    if r.returncode != 0:
        raise RuntimeError('native shim build failed:\n' + r.stderr[-4000:])
    os.replace(tmp, so)
    if verbose:
        print('built', so)
    return so


_loaded = None


def load():
    """Import the shim as `_replicat_adapters` (idempotent)."""
    global _loaded
    if _loaded is not None:
        return _loaded
    so = build()
    spec = importlib.util.spec_from_file_location('_replicat_adapters', so)
    m = importlib.util.module_from_spec(spec)
    spec.loader.exec_module(m)
    assert getattr(m, '_verif_shim', None) == 1
    sys.modules['_replicat_adapters'] = m
    _loaded = m
    return m


def import_replicat():
    """Make `import replicat` resolve to the working tree (or REPLICAT_SRC) with the shim."""
    load()
    src = str(repo_src())
    if src in sys.path:
        sys.path.remove(src)
    sys.path.insert(0, src)
    import replicat.repository  # noqa
    import replicat
    got = Path(replicat.repository.__file__).resolve().parent.parent
    if got != Path(src).resolve():
        raise RuntimeError(f'replicat imported from {got}, expected {src}')
    return replicat

"""Simulated processes: one command of replicat = fresh Repository + fresh SimLoop + fresh
Sched, run over the durable state of the world (store, cache directory, file trees)."""
import contextlib
import gc
import io
import logging
import os
import shutil
import sys
import warnings
from pathlib import Path

from . import core, install
from .core import substream
from .install import CTX

logging.getLogger('asyncio').setLevel(logging.CRITICAL)
logging.getLogger('backoff').setLevel(logging.CRITICAL)
logging.getLogger('replicat').setLevel(logging.CRITICAL)
logging.getLogger('httpx').setLevel(logging.CRITICAL)
warnings.filterwarnings('ignore', category=RuntimeWarning)
warnings.filterwarnings('ignore', category=ResourceWarning)

SCRATCH_ROOT = Path(os.environ.get('VERIF_SCRATCH', '/dev/shm/replicat-verif'))


def _quiet_unraisable(unraisable):
    pass


sys.unraisablehook = _quiet_unraisable


def scratch_dir(check, seed):
    """A directory whose path is a function of (check, seed) only (paths are members of
    hashed sets inside replicat, so a pid in the path would leak into the schedule)."""
    d = SCRATCH_ROOT / check / str(seed)
    shutil.rmtree(d, ignore_errors=True)
    d.mkdir(parents=True)
    return d


def remove_scratch(d):
    shutil.rmtree(d, ignore_errors=True)


class SchedOpts:
    def __init__(self, preempt_p=0.02, timer_p=0.05, policy='random', sticky_p=0.3, step_cap=400_000,
                 time_cap=3600.0, hot_p=0.0):
        self.preempt_p, self.timer_p, self.policy, self.sticky_p = preempt_p, timer_p, policy, sticky_p
        self.step_cap, self.time_cap = step_cap, time_cap
        self.hot_p = hot_p

    @classmethod
    def swarm(cls, rng, **kw):
        o = cls(
            preempt_p=rng.choice([0.0, 0.005, 0.02, 0.05, 0.15]),
            timer_p=rng.choice([0.0, 0.0, 0.02, 0.1, 0.3]),
            policy=rng.choice(['random', 'sticky', 'sticky', 'pct']),
            sticky_p=rng.choice([0.05, 0.2, 0.5]),
        )
        for k, v in kw.items():
            setattr(o, k, v)
        return o

    @classmethod
    def sequential(cls):
        return cls(preempt_p=0.0, timer_p=0.0, policy='sticky', sticky_p=0.0)

    def as_dict(self):
        return dict(preempt_p=self.preempt_p, timer_p=self.timer_p, policy=self.policy,
                    sticky_p=self.sticky_p, step_cap=self.step_cap, hot_p=self.hot_p)

    @classmethod
    def from_dict(cls, d):
        return cls(**d)


class ProcResult:
    def __init__(self):
        self.value = None
        self.exc = None          # exception raised by the command (replicat's or backend's)
        self.crashed = False     # SimCrash injected
        self.hang = None         # SimDeadlock / SimLivelock instance
        self.stats = None
        self.digest = None
        self.stdout = ''
        self.stderr = ''
        self.events = None
        self.repo = None
        self.backend = None
        self.max_inflight = None

    @property
    def ok(self):
        return self.exc is None and not self.crashed and self.hang is None

    def outcome(self):
        if self.crashed:
            return 'crashed'
        if self.hang is not None:
            return 'hang:' + type(self.hang).__name__
        if self.exc is not None:
            return 'raised:' + type(self.exc).__name__
        return 'ok'


def run_process(env, main_factory, opts=None, *, keep_log=False, quiesce=True):
    """Run `await main_factory(result)` as one simulated process.

    main_factory(result) -> coroutine.  `result.repo`/`result.backend` may be filled by it.
    """
    install.install_once()
    gc.disable()
    opts = opts or SchedOpts()
    env.procs += 1
    seed = int.from_bytes(substream(env.seed, f'proc{env.procs}').randbytes(6), 'big')
    s = core.Sched(seed, preempt_p=opts.preempt_p, timer_p=opts.timer_p, policy=opts.policy,
                   sticky_p=opts.sticky_p, step_cap=opts.step_cap, time_cap=opts.time_cap,
                   start_time=env.now, keep_log=keep_log or bool(os.environ.get('VERIF_DUMP_EVENTS')))
    s.hot_p = getattr(opts, 'hot_p', 0.0)
    res = ProcResult()
    install.begin(s, env)
    loop = core.SimLoop(s)
    out, err = io.StringIO(), io.StringIO()
    raised = None
    try:
        with contextlib.redirect_stdout(out), contextlib.redirect_stderr(err):
            try:
                res.value = loop.run_until_complete(main_factory(res))
                if quiesce and not s.aborting:
                    # let call_soon_threadsafe callbacks (slot releases) and stragglers finish
                    loop.run_until_complete(_quiesce(s))
            except core.SimAbort:
                pass
            except BaseException as e:  # noqa
                raised = e
                if quiesce and not s.aborting:
                    try:
                        loop.run_until_complete(_quiesce(s))
                    except core.SimAbort:
                        pass
                    except BaseException:  # noqa
                        pass
    finally:
        try:
            s.shutdown()
        finally:
            install.end()
            env.now = max(env.now, s.now)
            try:
                loop.close()
            except Exception:  # noqa
                pass
    err_obj = s.error
    if isinstance(err_obj, core.SimCrash):
        res.crashed = True
    elif isinstance(err_obj, (core.SimDeadlock, core.SimLivelock)):
        res.hang = err_obj
    elif isinstance(err_obj, core.HarnessError):
        raise err_obj
    elif err_obj is not None and raised is None:
        # exception escaping a simulated thread that nobody awaited
        raised = err_obj
    if raised is not None and not res.crashed and res.hang is None:
        if isinstance(raised, core.HarnessError):
            raise raised
        res.exc = raised
    res.stats = s.stats()
    res.digest = s.digest()
    res.events = s.events
    res.stdout, res.stderr = out.getvalue(), err.getvalue()
    if os.environ.get('VERIF_DUMP_EVENTS') and s.events is not None:
        with open(os.environ['VERIF_DUMP_EVENTS'], 'a') as fh:
            fh.write(f'=== process {env.procs} seed {seed}\n' + '\n'.join(s.events) + '\n')
    del loop
    # cyclic garbage of this process (suspended coroutines, futures) is finalized now, outside
    # any simulated run; the collector is off while a run is in progress so that allocation
    # counts never decide when a finalizer runs (replay in a fresh interpreter stays exact)
    gc.collect()
    return res


class Proc:
    """A long-lived simulated process (a program that keeps its Repository object between
    commands): one Sched + one loop; between two commands every thread of it is parked and other
    processes of the universe may run."""

    def __init__(self, env, opts=None, *, keep_log=False):
        install.install_once()
        self.opts = opts = opts or SchedOpts()
        self.env = env
        env.procs += 1
        seed = int.from_bytes(substream(env.seed, f'proc{env.procs}').randbytes(6), 'big')
        self.s = s = core.Sched(seed, preempt_p=opts.preempt_p, timer_p=opts.timer_p, policy=opts.policy,
                                sticky_p=opts.sticky_p, step_cap=opts.step_cap, time_cap=opts.time_cap,
                                start_time=env.now, keep_log=keep_log)
        s.hot_p = getattr(opts, 'hot_p', 0.0)
        s.suspended = True
        self.loop = None
        self.module_state = None
        self.dead = False

    def _enter(self):
        import replicat.utils as U
        gc.disable()
        s = self.s
        install.begin(s, self.env)
        if self.module_state is None:
            self.module_state = (U._async_auth_glock, U._async_auth_locks, U._sync_auth_locks)
        else:
            U._async_auth_glock, U._async_auth_locks, U._sync_auth_locks = self.module_state
        s.suspended = False
        s.by_thread[__import__('threading').get_ident()] = s.tasks[0]
        if s.now < self.env.now:
            s.now = self.env.now          # other processes ran meanwhile
        if self.loop is None:
            self.loop = core.SimLoop(s)

    def _leave(self):
        self.s.suspended = True
        install.end()
        self.env.now = max(self.env.now, self.s.now)

    def run(self, main_factory):
        """One command inside the live process: `await main_factory(result)` on its loop."""
        if self.dead:
            raise core.HarnessError('command sent to a dead process')
        s = self.s
        res = ProcResult()
        before = s.stats()
        s.step_cap = s.steps + self.opts.step_cap
        s.time_cap = (s.now - s.start_time) + self.opts.time_cap
        out, err = io.StringIO(), io.StringIO()
        raised = None
        self._enter()
        try:
            with contextlib.redirect_stdout(out), contextlib.redirect_stderr(err):
                try:
                    res.value = self.loop.run_until_complete(main_factory(res))
                    if not s.aborting:
                        self.loop.run_until_complete(_settle(s))
                except core.SimAbort:
                    pass
                except BaseException as e:  # noqa
                    raised = e
                    if not s.aborting:
                        try:
                            self.loop.run_until_complete(_settle(s))
                        except core.SimAbort:
                            pass
        finally:
            self._leave()
        err_obj = s.error
        if err_obj is not None:
            self.close()
        if isinstance(err_obj, core.SimCrash):
            res.crashed = True
        elif isinstance(err_obj, (core.SimDeadlock, core.SimLivelock)):
            res.hang = err_obj
        elif isinstance(err_obj, core.HarnessError):
            raise err_obj
        elif err_obj is not None and raised is None:
            raised = err_obj
        if raised is not None and not res.crashed and res.hang is None:
            if isinstance(raised, core.HarnessError):
                raise raised
            res.exc = raised
        after = s.stats()
        res.stats = {k: (after[k] - before[k] if isinstance(after[k], (int, float)) and k != 'tasks' else after[k]) for k in after}
        res.digest = s.digest()
        res.events = s.events
        res.stdout, res.stderr = out.getvalue(), err.getvalue()
        gc.collect()
        return res

    def close(self):
        if self.dead:
            return
        self.dead = True
        s = self.s
        s.suspended = False
        try:
            s.shutdown()
        finally:
            s.suspended = True
            if self.loop is not None:
                try:
                    self.loop.close()
                except Exception:  # noqa
                    pass
            self.loop = None
        gc.collect()


async def _settle(s):
    """After a command of a live process: nothing is cancelled (the program goes on), but work
    that is already under way (executor jobs, backend calls in flight, tasks the command left
    behind) gets the time it would get in reality before anybody looks at the store."""
    import asyncio
    loop = asyncio.get_running_loop()
    me = asyncio.current_task()

    def idle(t):
        return t.state == core.DONE or (t.state == core.BLOCKED and t.deadline is None and t.what == 'queue.get')

    for _ in range(400):
        await asyncio.sleep(0)
        threads_idle = all(idle(t) for t in s.tasks[1:])
        tasks_left = [t for t in asyncio.all_tasks(loop) if t is not me and not t.done()]
        if threads_idle and not tasks_left and len(loop._ready) == 0:
            return
        if not threads_idle:
            s.block_until(lambda: all(idle(t) for t in s.tasks[1:]) or bool(loop._ready), timeout=0.5, what='settle')
        else:
            await asyncio.sleep(0.05)


def _task_order(t):
    name = t.get_name()
    try:
        return (0, int(name.rsplit('-', 1)[1]))
    except (IndexError, ValueError):
        return (1, 0)


async def _quiesce(s):
    """End of process as asyncio.run() + interpreter exit do it: cancel what the command left
    behind on the loop, then let executor threads drain and their loop callbacks (slot
    releases) run."""
    import asyncio
    loop = asyncio.get_running_loop()
    me = asyncio.current_task()
    for _ in range(10_000):
        # all_tasks() is a set ordered by address: cancel in creation order instead
        others = sorted((t for t in asyncio.all_tasks(loop) if t is not me and not t.done()), key=_task_order)
        for t in others:
            t.cancel()
        if others:
            await asyncio.gather(*others, return_exceptions=True)
        await asyncio.sleep(0)
        alive = [t for t in s.tasks[1:] if t.state != core.DONE]
        if not alive and len(loop._ready) == 0 and not [t for t in asyncio.all_tasks(loop) if t is not me and not t.done()]:
            return
        if alive:
            s.block_until(lambda: all(t.state == core.DONE for t in s.tasks[1:]) or bool(loop._ready),
                          timeout=1.0, what='quiesce')
    raise core.HarnessError('quiesce did not converge')


class Client:
    """One user / machine: credentials, concurrency and cache directory."""

    def __init__(self, name, *, password=None, key=None, concurrent=2, cache_dir=None):
        self.name, self.password, self.key = name, password, key
        self.concurrent, self.cache_dir = concurrent, cache_dir


def session(make_backend, client, action, *, unlock=True):
    """Mirror of replicat.__main__._cmd_handler for one command."""
    import replicat.repository as R

    async def main(res):
        backend = make_backend()
        repo = R.Repository(backend, concurrent=client.concurrent, quiet=True,
                            cache_directory=client.cache_dir)
        res.repo, res.backend = repo, backend
        try:
            if unlock:
                await repo.unlock(password=client.password, key=client.key)
            value = await action(repo)
            await repo.close()
        finally:
            # in-flight accounting is about the command's lifetime, not the modelled teardown
            res.max_inflight = getattr(backend, 'max_inflight_slot', None)
        return value
    return main


def gc_collect():
    gc.collect()

"""RefFormat: independent reader/writer of replicat's repository format.

Written from the README and the statement of property C14; uses only hashlib, the AEAD
primitives of `cryptography`, base64 and json.  It never imports replicat."""
import base64
import hashlib
import json
import os


class FormatError(Exception):
    pass


def _hook(o):
    if len(o) == 1 and '!b' in o:
        return base64.standard_b64decode(o['!b'])
    return o


def loads(data):
    return json.loads(data, object_hook=_hook)


def _default(o):
    if isinstance(o, (bytes, bytearray, memoryview)):
        return {'!b': base64.standard_b64encode(bytes(o)).decode('ascii')}
    raise TypeError(type(o))


def dumps(obj):
    return json.dumps(obj, separators=(',', ':'), default=_default).encode('ascii')


def make_hash(cfg):
    name = cfg['name']
    if name == 'blake2b':
        n = cfg.get('length', 64)
        return lambda d: hashlib.blake2b(d, digest_size=n).digest()
    if name == 'sha2':
        f = getattr(hashlib, 'sha%d' % cfg.get('bits', 512))
        return lambda d: f(d).digest()
    if name == 'sha3':
        f = getattr(hashlib, 'sha3_%d' % cfg.get('bits', 512))
        return lambda d: f(d).digest()
    raise FormatError(f'unknown hash {name}')


class Aead:
    def __init__(self, cfg):
        from cryptography.hazmat.primitives.ciphers import aead
        name = cfg['name']
        if name == 'aes_gcm':
            self.cls = aead.AESGCM
            self.key_bytes = cfg.get('key_bits', 256) // 8
            self.nonce_bytes = cfg.get('nonce_bits', 96) // 8
        elif name == 'chacha20_poly1305':
            self.cls = aead.ChaCha20Poly1305
            self.key_bytes = 32
            self.nonce_bytes = 12
        else:
            raise FormatError(f'unknown cipher {name}')

    def decrypt(self, blob, key):
        from cryptography.exceptions import InvalidTag
        if len(blob) < self.nonce_bytes + 16:
            raise FormatError('ciphertext shorter than nonce + tag')
        try:
            return self.cls(key).decrypt(blob[:self.nonce_bytes], blob[self.nonce_bytes:], None)
        except InvalidTag:
            raise FormatError('authentication failed') from None

    def encrypt(self, data, key, nonce=None):
        nonce = nonce if nonce is not None else os.urandom(self.nonce_bytes)
        return nonce + self.cls(key).encrypt(nonce, data, None)

    def nonce_of(self, blob):
        return blob[:self.nonce_bytes]


def slow_kdf(cfg, password, salt):
    if cfg['name'] == 'blake2b':
        # the keyed-BLAKE2b KDF is a documented choice for high-entropy pass-phrases (<= 64 bytes)
        return hashlib.blake2b(b'', salt=salt, digest_size=cfg['length'], key=password).digest()
    if cfg['name'] != 'scrypt':
        raise FormatError('unknown user kdf')
    return hashlib.scrypt(password, salt=salt, n=cfg.get('n', 1 << 20), r=cfg.get('r', 8), p=cfg.get('p', 1),
                          dklen=cfg['length'], maxmem=2**31 - 1)


class RefRepo:
    """One user's view of a repository: config + (key, password)."""

    def __init__(self, config_bytes, key_bytes=None, password=None):
        self.config = cfg = loads(config_bytes)
        if not isinstance(cfg, dict) or set(cfg) - {'hashing', 'chunking', 'encryption'}:
            raise FormatError(f'config has unexpected members: {sorted(cfg)}')
        self.hash = make_hash(cfg['hashing'])
        self.chunking = cfg['chunking']
        enc = cfg.get('encryption')
        self.encrypted = enc is not None
        self.userkey = None
        self.private = None
        self.key = None
        if self.encrypted:
            if set(enc) - {'cipher'}:
                raise FormatError(f'config.encryption has unexpected members: {sorted(enc)}')
            self.aead = Aead(enc['cipher'])
            if key_bytes is not None:
                self.load_key(key_bytes, password)

    def load_key(self, key_bytes, password):
        key = loads(key_bytes) if isinstance(key_bytes, (bytes, str)) else key_bytes
        self.key = key
        if set(key) != {'kdf', 'kdf_params', 'private'}:
            raise FormatError(f'key file members: {sorted(key)}')
        if not isinstance(key['private'], bytes) or not isinstance(key['kdf_params'], bytes):
            raise FormatError('key file: private / kdf_params must be byte strings')
        self.userkey = slow_kdf(key['kdf'], password, key['kdf_params'])
        if len(self.userkey) != self.aead.key_bytes:
            raise FormatError('user key length does not match the cipher')
        self.private = loads(self.aead.decrypt(key['private'], self.userkey))
        need = {'shared_key', 'shared_kdf', 'shared_kdf_params', 'mac', 'mac_params', 'chunker_params'}
        if set(self.private) != need:
            raise FormatError(f'private section members: {sorted(self.private)}')
        if self.private['shared_kdf']['name'] != 'blake2b' or self.private['mac']['name'] != 'blake2b':
            raise FormatError('unexpected shared kdf / mac')

    # ---- keyed primitives
    def mac(self, data):
        p = self.private
        return hashlib.blake2b(data, digest_size=p['mac'].get('length', 64), key=p['mac_params']).digest()

    def fast_kdf(self, context):
        p = self.private
        return hashlib.blake2b(context, salt=p['shared_kdf_params'], digest_size=p['shared_kdf']['length'],
                               key=p['shared_key']).digest()

    def family_id(self):
        """Identifies the key family (users sharing the shared secrets)."""
        if not self.encrypted:
            return 'plain'
        return hashlib.sha256(self.private['mac_params'] + self.private['shared_key']).hexdigest()[:16]

    # ---- names
    def chunk_location(self, digest):
        if self.encrypted:
            name = self.mac(digest)
            tag = self.mac(name)
        else:
            name = tag = digest
        n, t = name.hex(), tag.hex()
        return f'data/{t[:2]}/{t[2:4]}/{t[4:]}-{n}'

    def snapshot_location(self, body):
        d = self.hash(body)
        t = (self.mac(d) if self.encrypted else d).hex()
        return f'snapshots/{t[:2]}/{t[2:]}-{d.hex()}'

    @staticmethod
    def parse_chunk_location(loc):
        parts = loc.split('/')
        if len(parts) != 4 or parts[0] != 'data' or '-' not in parts[3]:
            raise FormatError(f'not a chunk location: {loc}')
        rest, _, name = parts[3].rpartition('-')
        if len(parts[1]) != 2 or len(parts[2]) != 2:
            raise FormatError(f'chunk location fan-out: {loc}')
        return name, parts[1] + parts[2] + rest

    @staticmethod
    def parse_snapshot_location(loc):
        parts = loc.split('/')
        if len(parts) != 3 or parts[0] != 'snapshots' or '-' not in parts[2]:
            raise FormatError(f'not a snapshot location: {loc}')
        rest, _, name = parts[2].rpartition('-')
        if len(parts[1]) != 2:
            raise FormatError(f'snapshot location fan-out: {loc}')
        return name, parts[1] + rest

    def owns_chunk_location(self, loc):
        """Does the ownership tag verify under this key family?"""
        name, tag = self.parse_chunk_location(loc)
        if not self.encrypted:
            return name == tag
        try:
            return self.mac(bytes.fromhex(name)).hex() == tag
        except ValueError:
            return False

    def owns_snapshot_location(self, loc):
        name, tag = self.parse_snapshot_location(loc)
        if not self.encrypted:
            return name == tag
        try:
            return self.mac(bytes.fromhex(name)).hex() == tag
        except ValueError:
            return False

    # ---- objects
    def decode_chunk(self, blob, digest):
        data = self.aead.decrypt(blob, self.fast_kdf(digest)) if self.encrypted else blob
        if self.hash(data) != digest:
            raise FormatError('chunk plaintext does not hash to the referenced digest')
        return data

    def encode_chunk(self, data, nonce=None):
        digest = self.hash(data)
        blob = self.aead.encrypt(data, self.fast_kdf(digest), nonce) if self.encrypted else data
        return self.chunk_location(digest), blob, digest

    def decode_snapshot(self, blob, loc=None):
        """-> {'chunks': [digest...], 'data': dict | None (private part not readable with this user key)}"""
        if loc is not None:
            name, _ = self.parse_snapshot_location(loc)
            if self.hash(blob).hex() != name:
                raise FormatError('snapshot bytes do not hash to the name')
        body = loads(blob)
        if not isinstance(body, dict) or set(body) != {'chunks', 'data'}:
            raise FormatError(f'snapshot body members: {sorted(body) if isinstance(body, dict) else type(body)}')
        if not self.encrypted:
            return body
        if not isinstance(body['chunks'], bytes) or not isinstance(body['data'], bytes):
            raise FormatError('encrypted snapshot body must consist of two byte strings')
        chunks = loads(self.aead.decrypt(body['chunks'], self.fast_kdf(self.hash(body['data']))))
        try:
            data = loads(self.aead.decrypt(body['data'], self.userkey))
        except FormatError:
            data = None
        return {'chunks': chunks, 'data': data, 'raw': body}

    def encode_snapshot(self, chunks, data, rng=None):
        if not self.encrypted:
            blob = dumps({'chunks': chunks, 'data': data})
        else:
            n1 = rng.randbytes(self.aead.nonce_bytes) if rng is not None else None
            n2 = rng.randbytes(self.aead.nonce_bytes) if rng is not None else None
            enc_data = self.aead.encrypt(dumps(data), self.userkey, n1)
            enc_chunks = self.aead.encrypt(dumps(chunks), self.fast_kdf(self.hash(enc_data)), n2)
            blob = dumps({'chunks': enc_chunks, 'data': enc_data})
        return self.snapshot_location(blob), blob

    # ---- whole-file reassembly
    def file_bytes(self, snapshot, file_entry, objects):
        """Reassemble one file of a decoded snapshot from the stored chunk objects; checks tiling."""
        out = bytearray()
        refs = sorted(file_entry['chunks'], key=lambda c: c['counter'])
        cache = {}
        for ref in refs:
            digest = snapshot['chunks'][ref['index']]
            if digest not in cache:
                loc = self.chunk_location(digest)
                if loc not in objects:
                    raise FormatError(f'referenced chunk object missing: {loc}')
                cache[digest] = self.decode_chunk(objects[loc], digest)
            a, b = ref['range']
            if not (0 <= a <= b <= len(cache[digest])):
                raise FormatError(f'range {ref["range"]} outside chunk of {len(cache[digest])} bytes')
            out += cache[digest][a:b]
        return bytes(out)


def new_private(aead, rng):
    """Secrets of a fresh key family (reference writer)."""
    return {
        'shared_key': rng.randbytes(aead.key_bytes),
        'shared_kdf': {'length': aead.key_bytes, 'name': 'blake2b'},
        'shared_kdf_params': rng.randbytes(16),
        'mac': {'length': 64, 'name': 'blake2b'},
        'mac_params': rng.randbytes(64),
        'chunker_params': rng.randbytes(16),
    }


def new_key_file(aead, private, password, rng, n=4, r=8, p=1):
    kdf = {'length': aead.key_bytes, 'n': n, 'r': r, 'p': p, 'name': 'scrypt'}
    salt = rng.randbytes(aead.key_bytes)
    userkey = slow_kdf(kdf, password, salt)
    enc = aead.encrypt(dumps(private), userkey, rng.randbytes(aead.nonce_bytes))
    return dumps({'kdf': kdf, 'kdf_params': salt, 'private': enc})

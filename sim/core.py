"""Deterministic simulator core: seeded baton-passing scheduler over real threads,
virtual clock, simulated synchronisation primitives and a virtual-time asyncio loop.

One `Sched` = one simulated process execution.  Only the thread holding the baton runs
Python code; every scheduling decision is drawn from the `sched` PRNG sub-stream of the
run seed, so a run is a pure function of (code, seed, configuration).
"""
import asyncio
import collections
import concurrent.futures
import hashlib
import queue as _queue
import random
import threading
from asyncio import base_events, futures as afutures


class SimAbort(BaseException):
    """Unwinds every simulated task when a run is aborted (crash, deadlock, cap)."""


class SimDeadlock(Exception):
    pass


class SimLivelock(Exception):
    pass


class SimCrash(Exception):
    """The simulated process was killed at a chosen instant (not an error of the code)."""


class HarnessError(Exception):
    pass


RUNNABLE, BLOCKED, DONE = 'R', 'B', 'D'


def substream(seed, label):
    h = hashlib.blake2b(f'{seed}/{label}'.encode(), digest_size=8).digest()
    return random.Random(int.from_bytes(h, 'big'))


class Task:
    __slots__ = ('id', 'name', 'sem', 'state', 'pred', 'deadline', 'timed_out', 'thread', 'what', 'exact', 'held')

    def __init__(self, id, name):
        self.id, self.name = id, name
        self.sem = threading.Semaphore(0)
        self.state = RUNNABLE
        self.pred = None
        self.deadline = None
        self.timed_out = False
        self.thread = None
        self.what = None
        self.exact = False
        self.held = False


class Sched:
    def __init__(self, seed, *, preempt_p=0.02, timer_p=0.05, policy='random', sticky_p=0.3,
                 step_cap=400_000, time_cap=3600.0, start_time=0.0, keep_log=False):
        self.seed = seed
        self.rng = substream(seed, 'sched')
        self.tasks = []
        self.now = start_time
        self.start_time = start_time
        self.steps = 0
        self.switches = 0
        self.preemptions = 0
        self.counters = collections.Counter()   # reach probes (never influence a choice)
        self.timers_fired = 0
        self.early_timers = 0
        self.step_cap = step_cap
        self.time_cap = time_cap
        self.preempt_p = preempt_p
        self.timer_p = timer_p
        self.policy = policy
        self.sticky_p = sticky_p
        self.h = hashlib.blake2b(digest_size=16)
        self.keep_log = keep_log
        self.events = [] if keep_log else None
        self.aborting = False
        self.error = None
        self.by_thread = {}
        self.on_step = None
        self.starve_limit = 400
        self._since_timer = 0
        self._dispatching = False
        self.query_yield_p = 0.25
        self.pct_d = 2
        self.pct_horizon = 3000
        self._pct_points = None
        self._pct_prio = {}
        self.hot_p = 0.0
        self.suspended = False      # a long-lived process between two commands: nobody of it runs
        main = Task(0, 'main')
        main.thread = threading.current_thread()
        self.tasks.append(main)
        self.by_thread[threading.get_ident()] = main
        self.current = main

    # ---- logging (never draws from a PRNG, never reads a real clock)
    def log(self, *a):
        if self.aborting:
            return
        r = repr(a)
        self.h.update(r.encode())
        if self.events is not None:
            self.events.append(r)

    def digest(self):
        return self.h.hexdigest()

    # ---- task management
    def cur(self):
        if self.suspended:
            return None
        return self.by_thread.get(threading.get_ident())

    def spawn(self, fn, name):
        if self.aborting:
            raise SimAbort
        t = Task(len(self.tasks), name)
        self.tasks.append(t)

        def body():
            self.by_thread[threading.get_ident()] = t
            t.sem.acquire()
            try:
                if not self.aborting:
                    fn()
            except SimAbort:
                pass
            except BaseException as e:  # noqa
                if self.error is None and not self.aborting:
                    self.error = e
            finally:
                t.state = DONE
                if not self.aborting:
                    self.log('exit', t.name)
                    try:
                        self._dispatch(t, finished=True)
                    except SimAbort:
                        pass

        th = threading.Thread(target=body, name=name, daemon=True)
        t.thread = th
        th.start()
        self.log('spawn', name)
        return t

    def _runnable(self):
        out = []
        for t in self.tasks:
            if t.state == RUNNABLE:
                out.append(t)
            elif t.state == BLOCKED and t.pred is not None and t.pred():
                t.state = RUNNABLE
                out.append(t)
        return out

    def _earliest(self):
        best = None
        for t in self.tasks:
            if t.state == BLOCKED and t.deadline is not None and (
                best is None or t.deadline < best.deadline
            ):
                best = t
        return best

    def _fire_timer(self):
        best = self._earliest()
        if best is None:
            return None
        if best.deadline > self.now:
            self.now = best.deadline
        best.state = RUNNABLE
        best.timed_out = True
        self.timers_fired += 1
        self._since_timer = 0
        return best

    def _pick(self, r, cur):
        if len(r) == 1:
            return r[0]
        if self.policy == 'sticky' and cur in r and self.rng.random() >= self.sticky_p:
            return cur
        if self.policy == 'pct':
            # PCT (Burckhardt et al.): random static priorities, the highest-priority runnable task runs;
            # at d seeded change points the running task drops below everybody else
            if self._pct_points is None:
                self._pct_points = sorted(self.rng.randrange(1, self.pct_horizon) for _ in range(self.pct_d))
                self._pct_low = 0
            while self._pct_points and self.steps >= self._pct_points[0]:
                self._pct_points.pop(0)
                self._pct_low -= 1
                self._pct_prio[cur.id] = self._pct_low
            best = None
            for t in r:
                pr = self._pct_prio.get(t.id)
                if pr is None:
                    pr = self._pct_prio[t.id] = self.rng.random() + 1.0
                if best is None or pr > best[0]:
                    best = (pr, t)
            return best[1]
        return r[self.rng.randrange(len(r))]

    def _dispatch(self, cur, finished=False):
        """cur gives up the baton (and may be picked again)."""
        self.steps += 1
        if self.on_step is not None:
            self.on_step(self)
        if self.steps > self.step_cap or self.now - self.start_time > self.time_cap:
            self._abort(SimLivelock(
                f'step cap {self.step_cap} / time cap {self.time_cap} exceeded at steps={self.steps} '
                f'now={self.now - self.start_time:.3f}: ' + self._table()))
            if finished:
                return
            raise SimAbort
        self._dispatching = True
        try:
            nxt = self._choose(cur, finished)
        finally:
            self._dispatching = False
        if nxt is None:
            return
        self.log('run', nxt.name)
        if nxt is cur:
            return
        self.switches += 1
        self.current = nxt
        nxt.sem.release()
        if not finished:
            cur.sem.acquire()
            if self.aborting:
                raise SimAbort

    def _choose(self, cur, finished):
        while True:
            r = self._runnable()
            if r:
                self._since_timer += 1
                if self._since_timer > self.starve_limit and self._earliest() is not None:
                    # busy tasks consume time too: a pending timer cannot be starved forever
                    t = self._fire_timer()
                    self.log('fire-starved', t.name, round(self.now, 9))
                    if t.exact:
                        return t
                    continue
                if self.timer_p and self.rng.random() < self.timer_p and self._earliest() is not None:
                    t = self._fire_timer()
                    self.early_timers += 1
                    self.log('fire', t.name, round(self.now, 9))
                    if t.exact:
                        return t
                    continue
                return self._pick(r, cur)
            t = self._fire_timer()
            if t is None:
                self._abort(SimDeadlock('no runnable task and no pending timer: ' + self._table()))
                if finished:
                    return None
                raise SimAbort
            self.log('fire', t.name, round(self.now, 9))
            if t.exact:
                # a sleep that returns exactly on time: the sleeper runs at its deadline
                return t

    def _table(self):
        return ', '.join(
            f'{t.name}:{t.state}' + (f'({t.what})' if t.what and t.state == BLOCKED else '')
            for t in self.tasks if t.state != DONE)

    def _abort(self, err):
        if self.error is None:
            self.error = err
        self.aborting = True
        for t in self.tasks:
            if t.state != DONE:
                t.sem.release()

    def abort(self, err):
        """Called by a task holding the baton: kill the simulated process now."""
        self._abort(err)
        raise SimAbort

    # ---- API for primitives
    def yield_(self):
        cur = self.cur()
        if cur is None:
            return
        if self.aborting:
            raise SimAbort
        self._dispatch(cur)

    def query_yield(self):
        """Scheduling point after a non-blocking query (queue.empty(), event.is_set(), future.done()):
        lets another task run between the query and whatever the caller does with the answer.  Never
        yields while the scheduler itself evaluates predicates."""
        if self._dispatching or self.aborting:
            return
        cur = self.cur()
        if cur is None or cur is not self.current:
            return
        if self.rng.random() < self.query_yield_p:
            self._dispatch(cur)

    def maybe_preempt(self):
        if self.preempt_p and self.rng.random() < self.preempt_p:
            self.preemptions += 1
            self.yield_()

    def block_until(self, pred, timeout=None, what=None):
        cur = self.cur()
        if self.aborting:
            raise SimAbort
        if cur is None:
            raise HarnessError('block_until from a thread the simulator does not own')
        if pred():
            self._dispatch(cur)
            if pred():
                return True
        deadline = None if timeout is None else self.now + max(timeout, 0)
        while True:
            cur.state = BLOCKED
            cur.pred = pred
            cur.deadline = deadline
            cur.timed_out = False
            cur.what = what
            try:
                self._dispatch(cur)
            finally:
                cur.pred = None
                cur.deadline = None
                cur.state = RUNNABLE      # running again: a predicate may itself contain a scheduling point
            if pred():
                return True
            if cur.timed_out:
                return False

    def sleep(self, d):
        self.block_until(_never, timeout=max(d, 0), what='sleep')

    def sleep_exact(self, d):
        """Sleep that is observed to end exactly at its deadline (no scheduling delay)."""
        cur = self.cur()
        cur.exact = True
        try:
            self.block_until(_never, timeout=max(d, 0), what='sleep')
        finally:
            cur.exact = False

    def shutdown(self):
        self.aborting = True
        me = threading.current_thread()
        for t in self.tasks:
            if t.state != DONE and t.thread is not me:
                t.sem.release()
        alive = []
        for t in self.tasks:
            if t.thread is not me:
                t.thread.join(10)
                if t.thread.is_alive():
                    alive.append(t.name)
        # make this scheduler inert: finalizers of objects that outlive the run (collected
        # later, possibly on a thread whose ident was reused) must never park anybody
        self.by_thread = {}
        if alive:
            raise HarnessError('simulated threads survived shutdown: ' + ','.join(alive))

    def stats(self):
        return dict(steps=self.steps, switches=self.switches, preemptions=self.preemptions,
                    timers=self.timers_fired, early_timers=self.early_timers,
                    tasks=len(self.tasks), sim_s=round(self.now - self.start_time, 6),
                    counters=dict(self.counters))


def _never():
    return False


# ---------------------------------------------------------------- primitives
class SimLock:
    def __init__(self, s):
        self.s = s
        self.owner = None

    def acquire(self, blocking=True, timeout=-1):
        if not blocking:
            if self.owner is None:
                self.owner = self.s.cur() or True
                return True
            return False
        if self.owner is not None:
            self.s.counters['lock_contended'] += 1
        self.s.block_until(lambda: self.owner is None, what='lock')
        self.owner = self.s.cur() or True
        return True

    def release(self):
        self.owner = None
        self.s.yield_()

    def locked(self):
        return self.owner is not None

    def __enter__(self):
        self.acquire()
        return True

    def __exit__(self, *a):
        self.owner = None
        if a[0] is None or not issubclass(a[0], SimAbort):
            self.s.yield_()


class SimEvent:
    def __init__(self, s):
        self.s = s
        self.f = False

    def set(self):
        self.f = True
        self.s.yield_()

    def clear(self):
        self.f = False

    def is_set(self):
        r = self.f
        self.s.query_yield()
        return r

    def wait(self, timeout=None):
        return self.s.block_until(lambda: self.f, timeout, what='event')


class SimQueue:
    def __init__(self, s, maxsize=0):
        self.s = s
        self.maxsize = maxsize
        self.q = collections.deque()
        self.full_hits = 0

    def empty(self):
        r = not self.q
        self.s.query_yield()      # the answer may be stale by the time the caller acts on it
        return r

    def qsize(self):
        r = len(self.q)
        self.s.query_yield()
        return r

    def put(self, item, block=True, timeout=None):
        if self.maxsize and len(self.q) >= self.maxsize:
            self.s.counters['queue_full'] += 1
        ok = self.s.block_until(lambda: not self.maxsize or len(self.q) < self.maxsize,
                                timeout, what='queue.put')
        if not ok:
            self.full_hits += 1
            self.s.counters['queue_put_timeout'] += 1
            raise _queue.Full
        self.q.append(item)

    def put_nowait(self, item):
        if self.maxsize and len(self.q) >= self.maxsize:
            raise _queue.Full
        self.q.append(item)

    def get_nowait(self):
        if not self.q:
            self.s.counters['queue_get_timeout'] += 1
            raise _queue.Empty
        return self.q.popleft()

    def get(self, block=True, timeout=None):
        if not block:
            return self.get_nowait()
        if not self.s.block_until(lambda: bool(self.q), timeout, what='queue.get'):
            self.s.counters['queue_get_timeout'] += 1
            raise _queue.Empty
        return self.q.popleft()


class _HashSeq:
    """Futures and tasks hash by creation order, not by address: the iteration order of a set of
    futures (asyncio.wait) is then a function of the run, and a replay iterates it the same way."""
    n = 0

    @classmethod
    def next(cls):
        cls.n += 1
        return cls.n


class SimFuture(concurrent.futures.Future):
    _s = None

    def __hash__(self):
        try:
            return self._det_seq
        except AttributeError:
            self._det_seq = h = _HashSeq.next()
            return h

    def done(self):
        r = super().done()
        s = self._s
        if s is not None:
            s.query_yield()
        return r

    def _raw_done(self):
        return concurrent.futures.Future.done(self)

    def result(self, timeout=None):
        if not self.done():
            self._s.block_until(self._raw_done, what='future')
        return super().result(0)

    def exception(self, timeout=None):
        if not self.done():
            self._s.block_until(self._raw_done, what='future')
        return super().exception(0)


class SimExecutor:
    """ThreadPoolExecutor replacement: real threads that run only with the baton."""

    def __init__(self, s, max_workers=None, thread_name_prefix=''):
        self.s = s
        self.max = max_workers or 4
        self.prefix = thread_name_prefix or 'pool'
        self.active = 0
        self.pending = collections.deque()
        self.n = 0
        self.max_active = 0
        self._shutdown = False

    def submit(self, fn, *a, **k):
        if self._shutdown:
            raise RuntimeError('cannot schedule new futures after shutdown')
        f = SimFuture()
        f._s = self.s
        self.pending.append((f, fn, a, k))
        if self.active < self.max:
            self.active += 1
            self.max_active = max(self.max_active, self.active)
            self.n += 1
            self.s.spawn(self._worker, f'{self.prefix}-{self.n}')
        return f

    def _worker(self):
        try:
            while self.pending:
                f, fn, a, k = self.pending.popleft()
                if not f.set_running_or_notify_cancel():
                    continue
                try:
                    r = fn(*a, **k)
                except SimAbort:
                    raise
                except BaseException as e:  # noqa
                    f.set_exception(e)
                else:
                    f.set_result(r)
                del f, fn, a, k
                self.s.yield_()
        finally:
            self.active -= 1

    def shutdown(self, wait=True, *, cancel_futures=False):
        # as concurrent.futures.ThreadPoolExecutor: no new work, queued work still runs (unless
        # cancelled), and wait=True joins the worker threads on the calling thread
        self._shutdown = True
        if cancel_futures:
            while self.pending:
                f = self.pending.popleft()[0]
                f.cancel()
        if wait and self.s.cur() is not None:
            self.s.block_until(lambda: self.active == 0, what='executor.shutdown')

    def __enter__(self):
        return self

    def __exit__(self, *a):
        self.shutdown(wait=True)
        return False


def sim_as_completed(s):
    def as_completed(fs, timeout=None):
        fs = list(fs)
        done = set()
        while len(done) < len(fs):
            raw = concurrent.futures.Future.done
            s.block_until(lambda: any(raw(f) and id(f) not in done for f in fs), what='as_completed')
            for f in fs:
                if raw(f) and id(f) not in done:
                    done.add(id(f))
                    yield f
    return as_completed


def sim_wait(s):
    def wait(fs, timeout=None, return_when='ALL_COMPLETED'):
        fs = list(fs)

        def ready():
            d = [f for f in fs if concurrent.futures.Future.done(f)]
            if return_when == 'FIRST_COMPLETED':
                return bool(d)
            if return_when == 'FIRST_EXCEPTION':
                return len(d) == len(fs) or any(not f.cancelled() and f.exception(0) is not None for f in d)
            return len(d) == len(fs)
        s.block_until(ready, timeout, what='futures.wait')
        done = {f for f in fs if concurrent.futures.Future.done(f)}
        from concurrent.futures._base import DoneAndNotDoneFutures
        return DoneAndNotDoneFutures(done, set(fs) - done)
    return wait


class _Sel:
    def __init__(self, s, loop):
        self.s, self.loop = s, loop

    def select(self, timeout):
        if timeout == 0:
            self.s.yield_()
            return []
        self.s.block_until(lambda: bool(self.loop._ready) or self.loop._stopping, timeout, what='loop')
        return []

    def close(self):
        pass


class DetFuture(asyncio.Future):
    def __hash__(self):
        try:
            return self._det_seq
        except AttributeError:
            self._det_seq = h = _HashSeq.next()
            return h


class DetTask(asyncio.Task):
    def __hash__(self):
        try:
            return self._det_seq
        except AttributeError:
            self._det_seq = h = _HashSeq.next()
            return h


def _det_task_factory(loop, coro, **kw):
    return DetTask(coro, loop=loop, **kw)


class SimLoop(base_events.BaseEventLoop):
    """Stock CPython event loop driven by the simulator: virtual clock, no selector."""

    def __init__(self, s):
        super().__init__()
        self.s = s
        _HashSeq.n = 0
        self.set_task_factory(_det_task_factory)
        self._selector = _Sel(s, self)
        self._clock_resolution = 1e-9

    def time(self):
        return self.s.now

    def create_future(self):
        return DetFuture(loop=self)

    def run_in_executor(self, executor, func, *args):
        # the loop's default executor is a pool of simulated threads, like every other pool
        if executor is None:
            executor = getattr(self, '_sim_default_executor', None)
            if executor is None:
                executor = self._sim_default_executor = SimExecutor(self.s, 8, 'asyncio')
        return super().run_in_executor(executor, func, *args)

    def _process_events(self, ev):
        pass

    def _write_to_self(self):
        pass


def sim_run_coroutine_threadsafe(s):
    def rcts(coro, loop):
        fut = SimFuture()
        fut._s = s

        def cb():
            try:
                afutures._chain_future(asyncio.ensure_future(coro, loop=loop), fut)
            except BaseException as e:  # noqa
                if fut.set_running_or_notify_cancel():
                    fut.set_exception(e)
                raise

        loop.call_soon_threadsafe(cb)
        return fut
    return rcts

"""Batch runner: seeded search over cases on all cores, known-finding triage, minimisation,
replay files and evidence.  A check module provides

    PROP, LEVEL, RULE, COMPONENTS, ASSUMPTIONS
    gen_case(seed, tier) -> JSON-serialisable case (a pure function of the seed)
    run_case(case)       -> dict(violations=[{cls, msg, sig}], digest, nontrivial, fired={}, probes={},
                                 sim_s, steps, evaluations(optional, default 1), sample(optional))
    shrink(case)         -> iterable of smaller candidate cases (optional)
"""
import concurrent.futures
import faulthandler
import hashlib
import importlib
import json
import multiprocessing
import os
import shutil
import sys
import time
import traceback
from collections import Counter
from pathlib import Path

VERIF = Path(__file__).resolve().parent.parent
REPLAYS = Path(os.environ.get('VERIF_REPLAY_DIR', VERIF / 'replays'))
EVIDENCE = Path(os.environ.get('VERIF_EVIDENCE_DIR', VERIF / 'evidence'))
KNOWN = VERIF / 'known_findings.json'

CASE_TIMEOUT = int(os.environ.get('VERIF_CASE_TIMEOUT', '300'))


def load_known(prop):
    if not KNOWN.exists() or os.environ.get('VERIF_IGNORE_KNOWN'):
        return []
    data = json.loads(KNOWN.read_text())
    return [f for f in data.get('findings', []) if f.get('property') == prop and f.get('status') == 'known']


def match_known(viol, known):
    for f in known:
        m = f.get('match', {})
        if m.get('cls') != viol['cls']:
            continue
        sig = viol.get('sig', {})
        if all(sig.get(k) == v for k, v in m.get('where', {}).items()):
            return f
    return None


def get_check(prop):
    return importlib.import_module(f'checks.{prop.lower()}')


def source_digest():
    from .native import repo_src
    h = hashlib.sha256()
    root = repo_src()
    for p in sorted(list((root / 'replicat').rglob('*.py')) + [root / 'src' / 'adapters.cpp']):
        if '/tests/' in str(p):
            continue
        h.update(str(p.relative_to(root)).encode())
        h.update(p.read_bytes())
    return h.hexdigest()


def _run_one(mod, case):
    faulthandler.dump_traceback_later(CASE_TIMEOUT, exit=True)
    try:
        return mod.run_case(case)
    finally:
        faulthandler.cancel_dump_traceback_later()


def _worker_batch(prop, tier, seeds):
    """Runs in a forked worker."""
    from . import native
    native.import_replicat()
    mod = get_check(prop)
    out = []
    for seed in seeds:
        t0 = time.time()
        try:
            case = mod.gen_case(seed, tier)
            r = _run_one(mod, case)
            r['seed'] = seed
            r['wall'] = time.time() - t0
            if r.get('violations'):
                r['case'] = case
            elif 'sample' not in r:
                r['sample'] = None
            out.append(r)
        except BaseException as e:  # noqa
            out.append({'seed': seed, 'harness_error': ''.join(traceback.format_exception(e))[-4000:]})
            if isinstance(e, (KeyboardInterrupt, SystemExit)):
                raise
    return out


def reexec_pinned():
    """Pin PYTHONHASHSEED (set/dict iteration order of str keys feeds the schedule)."""
    if os.environ.get('PYTHONHASHSEED') != os.environ.get('VERIF_HASHSEED', '0'):
        env = dict(os.environ)
        env['PYTHONHASHSEED'] = os.environ.get('VERIF_HASHSEED', '0')
        os.execve(sys.executable, [sys.executable] + sys.argv, env)


def same_violation(r, cls):
    return any(v['cls'] == cls for v in r.get('violations', []))


def minimise(mod, case, viol, budget_s):
    """Greedy shrinking through the check's candidate generator; a candidate is accepted
    only if the same violation class recurs (tried on the original schedule seed and a few
    neighbours).  Returns the smallest failing case found and its result."""
    if not hasattr(mod, 'shrink'):
        return case, None
    t_end = time.time() + budget_s
    best = case
    best_res = None
    improved = True
    rounds = 0
    while improved and time.time() < t_end:
        improved = False
        rounds += 1
        for cand in mod.shrink(best):
            if time.time() > t_end:
                break
            ok = None
            for k in range(getattr(mod, 'SHRINK_SEEDS', 4)):
                c2 = json.loads(json.dumps(cand))
                if k:
                    c2['sched_seed'] = c2.get('sched_seed', 0) + 7919 * k
                try:
                    r = _run_one(mod, c2)
                except Exception:  # noqa
                    continue
                if same_violation(r, viol['cls']):
                    m = next(v for v in r['violations'] if v['cls'] == viol['cls'])
                    if m.get('sig') == viol.get('sig') or not viol.get('sig'):
                        ok = (c2, r)
                        break
            if ok is not None:
                best, best_res = ok
                improved = True
                break
    return best, best_res


def write_replay(prop, seed, case, viol, result, n=0):
    REPLAYS.mkdir(parents=True, exist_ok=True)
    path = REPLAYS / f'{prop}-{seed}-{n}.json'
    doc = {
        'property': prop,
        'violation': {k: viol[k] for k in ('cls', 'msg', 'sig') if k in viol},
        'seed': seed,
        'PYTHONHASHSEED': os.environ.get('PYTHONHASHSEED'),
        'env': json.loads(os.environ['VERIF_VARIANT']) if os.environ.get('VERIF_VARIANT') else None,
        'python': sys.version,
        'source_digest': source_digest(),
        'digest': result.get('digest') if result else None,
        'case': case,
    }
    # for the reader: the tail of the scheduler / fault event log of the failing run (not needed for replay)
    try:
        import tempfile
        tf = tempfile.NamedTemporaryFile(prefix='verif-trace-', suffix='.txt', delete=False)
        tf.close()
        os.environ['VERIF_DUMP_EVENTS'] = tf.name
        try:
            _run_one(get_check(prop), json.loads(json.dumps(case)))
        finally:
            os.environ.pop('VERIF_DUMP_EVENTS', None)
        lines = Path(tf.name).read_text().splitlines()
        os.unlink(tf.name)
        doc['trace_tail'] = lines[-250:]
        doc['trace_events'] = len(lines)
    except BaseException as e:  # noqa
        doc['trace_tail'] = [f'(trace not recorded: {e!r})']
    path.write_text(json.dumps(doc, indent=1, default=repr))
    return path


def check(prop, tier, *, base_seed=None, budget_s=None, max_runs=None, workers=None):
    from . import native
    native.build()
    native.import_replicat()       # before any check module pulls replicat in: the parent minimises with the same source as the workers
    mod = get_check(prop)
    base_seed = int(os.environ.get('VERIF_SEED', '1')) if base_seed is None else base_seed
    tiers = getattr(mod, 'TIERS', {})
    tcfg = tiers.get(tier, {})
    if budget_s is None:
        budget_s = float(os.environ.get('VERIF_BUDGET_S', tcfg.get('budget_s', 60 if tier == 'quick' else 900)))
    if max_runs is None:
        max_runs = int(os.environ.get('VERIF_MAX_RUNS', tcfg.get('max_runs', 10**9)))
    batch = tcfg.get('batch', 20)
    workers = workers or int(os.environ.get('VERIF_WORKERS', os.cpu_count() or 4))
    known = load_known(prop)
    t0 = time.time()
    ctx = multiprocessing.get_context('fork')
    results_n = 0
    evaluations = 0
    digests = set()
    fired = Counter()
    probes = Counter()
    sim_s = 0.0
    steps = 0
    samples = []
    known_hits = {}
    violations = []
    harness_errors = []
    slowest = (0.0, None)
    next_seed = base_seed * 1_000_000
    seeds_done = 0
    with concurrent.futures.ProcessPoolExecutor(max_workers=workers, mp_context=ctx) as pool:
        pending = set()

        def submit():
            nonlocal next_seed
            seeds = list(range(next_seed, next_seed + batch))
            next_seed += batch
            pending.add(pool.submit(_worker_batch, prop, tier, seeds))

        for _ in range(workers * 2):
            if (next_seed - base_seed * 1_000_000) < max_runs:
                submit()
        stop = False
        while pending:
            done, pending = concurrent.futures.wait(pending, timeout=5, return_when=concurrent.futures.FIRST_COMPLETED)
            for f in done:
                try:
                    batch_res = f.result()
                except BaseException as e:  # noqa  (worker died: time-out or crash)
                    harness_errors.append(f'worker failed: {e!r}')
                    stop = True
                    continue
                for r in batch_res:
                    seeds_done += 1
                    if 'harness_error' in r:
                        harness_errors.append(f'seed {r["seed"]}: {r["harness_error"]}')
                        continue
                    results_n += 1
                    if r.get('wall', 0) > slowest[0]:
                        slowest = (round(r['wall'], 1), r['seed'])
                    evaluations += r.get('evaluations', 1)
                    if r.get('nontrivial', True):
                        for d in (r.get('digests') or [r.get('digest')]):
                            digests.add(d)
                    fired.update(r.get('fired', {}))
                    probes.update(r.get('probes', {}))
                    sim_s += r.get('sim_s', 0.0)
                    steps += r.get('steps', 0)
                    if r.get('sample') is not None and len(samples) < 3:
                        samples.append(r['sample'])
                    for v in r.get('violations', []):
                        kf = match_known(v, known)
                        if kf is not None:
                            known_hits.setdefault(kf['id'], [kf, 0, r['seed']])[1] += 1
                        else:
                            violations.append((r['seed'], v, r['case'], r))
            if violations or harness_errors:
                stop = True
            if time.time() - t0 > budget_s or (next_seed - base_seed * 1_000_000) >= max_runs:
                stop = True
            if stop:
                pending = {f for f in pending if not f.cancel()}
            else:
                while len(pending) < workers * 2:
                    submit()
        if harness_errors:
            for p in list(pool._processes.values()):
                try:
                    p.kill()
                except Exception:  # noqa
                    pass
    wall = time.time() - t0

    exit_code = 0
    variant = None
    venv = getattr(mod, 'ENV_VARIANT', None)
    if venv and not violations and not harness_errors and not os.environ.get('VERIF_VARIANT'):
        # part of the budget again in a fresh interpreter started with this environment (e.g. PYTHONOPTIMIZE=1:
        # what the code under test does must not hinge on interpreter flags either)
        import subprocess
        import tempfile
        tmp = tempfile.mkdtemp(prefix='verif-variant-')
        env = dict(os.environ, **venv, VERIF_VARIANT=json.dumps(venv), VERIF_EVIDENCE_DIR=tmp, VERIF_SEED=str(base_seed + 500))
        share = getattr(mod, 'VARIANT_SHARE', 0.25)
        vr = subprocess.run([sys.executable, str(VERIF / 'run.py'), 'check', prop, '--tier', tier, '--budget', str(max(5.0, budget_s * share)),
                             '--workers', str(workers)], capture_output=True, text=True, env=env, timeout=max(600, budget_s * 4))
        vlines = [l for l in vr.stdout.splitlines() if l.startswith('VIOLATION') or l.startswith('  class=')]
        tail = vr.stdout.strip().splitlines()[-1] if vr.stdout.strip() else ''
        variant = {'env': venv, 'exit': vr.returncode, 'summary': tail}
        try:
            vev = json.loads((Path(tmp) / f'{prop}.json').read_text())
            variant['cases'] = vev['coverage'].get('cases')
            variant['evaluations'] = vev['coverage'].get('evaluations')
        except Exception:  # noqa
            pass
        shutil.rmtree(tmp, ignore_errors=True)
        wall = time.time() - t0
        if vr.returncode == 1:
            for l in vlines:
                print(l)
            exit_code = 1
        elif vr.returncode != 0:
            harness_errors.append(f'variant run {venv} failed with exit {vr.returncode}: {vr.stdout[-1500:]} {vr.stderr[-1500:]}')
    for fid, (kf, n, seed) in sorted(known_hits.items()):
        print(f'KNOWN-FINDING: property={prop} {fid}: {kf["what"]} (hit {n}x, e.g. seed {seed})')
    reported = []
    if violations and not harness_errors:
        # minimise and report the first violation of each class (bounded)
        seen = set()
        for seed, v, case, r in sorted(violations, key=lambda x: x[0]):
            if v['cls'] in seen or len(seen) >= 3:
                continue
            seen.add(v['cls'])
            small, small_res = minimise(mod, case, v, budget_s=tcfg.get('minimise_s', 60))
            path = write_replay(prop, seed, small, v, small_res or r, n=len(reported))
            ok = replay(path, quiet=True, in_subprocess=True)
            reported.append(str(path))
            print(f'VIOLATION property={prop} replay={path}')
            print(f'  class={v["cls"]} seed={seed} replay_reproduces={ok}: {v["msg"][:600]}')
        exit_code = 1
    if harness_errors:
        print(f'HARNESS-ERROR property={prop}: {len(harness_errors)} error(s)')
        for h in harness_errors[:3]:
            print(h)
        exit_code = 2

    ev = {
        'property_id': prop,
        'tier': tier,
        'seed': base_seed,
        'level': mod.LEVEL,
        'wall_s': round(wall, 2),
        'violations': len(violations) + (1 if variant and variant['exit'] == 1 else 0),
        'coverage': {
            'evaluations': evaluations,
            'distinct_nontrivial': len(digests),
            'rule': mod.RULE,
            'samples': samples or ['(no sample recorded)'],
            'cases': results_n,
            'seeds': [base_seed * 1_000_000, next_seed - 1],
            'runs_per_hour': round(results_n / wall * 3600) if wall else 0,
            'evaluations_per_hour': round(evaluations / wall * 3600) if wall else 0,
            'simulated_seconds': round(sim_s, 3),
            'scheduler_steps': steps,
            'faults_fired': dict(fired),
            'probes': dict(probes),
            'slowest_case': {'wall_s': slowest[0], 'seed': slowest[1]},
            'interpreter_variant': variant,
            'probes_at_zero': [k for k in getattr(mod, 'PROBES', []) if not probes.get(k) and not fired.get(k)],
            'known_findings_hit': {k: v[1] for k, v in known_hits.items()},
            'components': getattr(mod, 'COMPONENTS', {}),
            'workers': workers,
            'exhaustive': False,
        },
        'assumptions': getattr(mod, 'ASSUMPTIONS', []),
    }
    if exit_code != 2:
        EVIDENCE.mkdir(parents=True, exist_ok=True)
        (EVIDENCE / f'{prop}.json').write_text(json.dumps(_strkeys(ev), indent=1, default=repr))
    print(f'{prop} {tier}: cases={results_n} evaluations={evaluations} distinct={len(digests)} '
          f'violations={len(violations)} known={sum(v[1] for v in known_hits.values())} wall={wall:.1f}s exit={exit_code}')
    return exit_code


def _strkeys(o):
    # (JSON object keys are strings; a sample may carry anything)
    if isinstance(o, dict):
        return {(k if isinstance(k, (str, int, float, bool)) or k is None else repr(k)): _strkeys(v) for k, v in o.items()}
    if isinstance(o, (list, tuple)):
        return [_strkeys(v) for v in o]
    return o


def replay(path, quiet=False, in_subprocess=False):
    """Re-execute a replay file; True iff the same violation class (and digest) recurs."""
    doc = json.loads(Path(path).read_text())
    need = doc.get('env') or {}
    missing = {k: v for k, v in need.items() if os.environ.get(k) != v}
    if in_subprocess or missing:
        import subprocess
        env = dict(os.environ, **need)
        if need:
            env['VERIF_VARIANT'] = json.dumps(need)
        r = subprocess.run([sys.executable, str(VERIF / 'run.py'), 'replay', str(path)],
                           capture_output=True, text=True, timeout=CASE_TIMEOUT * 2, env=env)
        if not in_subprocess:
            sys.stdout.write(r.stdout)
            return True if r.returncode == 1 else (None if r.returncode == 2 else False)
        return r.returncode == 1 and 'REPRODUCED' in r.stdout
    from . import native
    native.import_replicat()
    mod = get_check(doc['property'])
    r = _run_one(mod, doc['case'])
    cls = doc['violation']['cls']
    same = same_violation(r, cls)
    dig_ok = doc.get('digest') is None or r.get('digest') == doc['digest']
    if not quiet:
        for v in r.get('violations', []):
            print(f'  {v["cls"]}: {v["msg"][:1500]}')
    if same and dig_ok:
        print(f'REPRODUCED property={doc["property"]} class={cls} digest={r.get("digest")}')
        return True
    if same:
        print(f'REPLAY-DIVERGED property={doc["property"]}: violation recurs but digest {r.get("digest")} != {doc["digest"]}')
        return None
    if doc.get('source_digest') != source_digest():
        print(f'NOT-REPRODUCED property={doc["property"]} class={cls} (source tree differs from the one recorded)')
    else:
        print(f'NOT-REPRODUCED property={doc["property"]} class={cls}')
    return False

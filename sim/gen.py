"""Seeded generators: repository settings, file trees, contents."""
import os
from pathlib import Path

ALIGN = 4


def gen_chunking(rng, small=True):
    kind = rng.random()
    if kind < 0.15:
        mx = rng.choice([4, 8, 12, 16, 32, 64])
        mn = mx                                   # min == max
    elif kind < 0.30:
        mx = rng.choice([5, 6, 7, 9, 10, 11, 13, 30, 61, 101, 250])     # unaligned max
        lo_aligned = 4
        mn = rng.randrange(1, (mx // 4) * 4 + 1) if mx >= 4 else 1
        mn = max(1, min(mn, (mx // 4) * 4))
        del lo_aligned
    else:
        mx = rng.choice([8, 16, 32, 64, 128, 256, 512])
        mn = rng.choice([1, 4, 8, max(1, mx // 16), max(1, mx // 4), max(1, mx // 2)])
        mn = min(mn, mx)
    # an aligned length must exist in [min, max]
    if ((mn + 3) & -4) > mx:
        mn = max(1, (mx // 4) * 4)
    if mx < 4:
        mx, mn = 4, min(mn, 4)
    return {'min_length': mn, 'max_length': mx}


def gen_hashing(rng):
    k = rng.random()
    if k < 0.5:
        return {'name': 'blake2b', 'length': rng.choice([16, 20, 32, 48, 64])}
    if k < 0.75:
        return {'name': 'sha2', 'bits': rng.choice([224, 256, 384, 512])}
    return {'name': 'sha3', 'bits': rng.choice([224, 256, 384, 512])}


def gen_cipher(rng):
    if rng.random() < 0.6:
        return {'name': 'aes_gcm', 'key_bits': rng.choice([128, 192, 256]),
                'nonce_bits': rng.choice([64, 96, 96, 128, 256])}
    return {'name': 'chacha20_poly1305'}


def gen_kdf(rng):
    return {'name': 'scrypt', 'n': rng.choice([2, 4, 8]), 'r': rng.choice([1, 2, 8]), 'p': 1}


def gen_settings(rng, encrypted=None):
    s = {}
    if rng.random() < 0.9:
        s['hashing'] = gen_hashing(rng)
    s['chunking'] = gen_chunking(rng)
    if encrypted is None:
        encrypted = rng.random() < 0.6
    if encrypted:
        s['encryption'] = {'cipher': gen_cipher(rng), 'kdf': gen_kdf(rng)}
    else:
        s['encryption'] = None
    return s


def copy_settings(s):
    import copy
    return copy.deepcopy(s)


def interesting_sizes(rng, mn, mx, piece=None):
    c = [0, 1, 2, 3, 4, 5, 7, 8, max(0, mn - 1), mn, mn + 1, mx - 1, mx, mx + 1, 2 * mx - 1, 2 * mx,
         2 * mx + 1, 3 * mx + 2, mx + mn, mx + mn - 1]
    if piece:
        c += [piece - 1, piece, piece + 1, 2 * piece, 2 * piece + 1]
    return c


def gen_content(rng, size, pool):
    """pool: list of previously generated contents (for duplicates / shared halves)."""
    k = rng.random()
    if size == 0:
        return b''
    if k < 0.45 or not pool:
        return rng.randbytes(size)
    if k < 0.55:
        return bytes(size)
    if k < 0.65:
        blk = rng.randbytes(rng.choice([1, 3, 4, 8, 16]))
        return (blk * (size // len(blk) + 1))[:size]
    other = rng.choice(pool)
    if not other:
        return rng.randbytes(size)
    if k < 0.78:
        return other                                  # identical file
    if k < 0.89:
        cut = rng.randrange(0, len(other) + 1) & -4   # shared (aligned) prefix
        return (other[:cut] + rng.randbytes(max(0, size - cut)))
    cut = rng.randrange(0, len(other) + 1)
    return rng.randbytes(max(0, size - (len(other) - cut))) + other[cut:]   # shared suffix


NAME_ALPHABETS = [
    'abcdefghijklmnopqrstuvwxyz0123456789',
    'abc XYZ-_.+=&%#@!~()[]{}\'",;\\:*?<>|',      # (a backslash, a colon, ... are ordinary characters of a POSIX file name)
    'äöüßéèñçøπλж日本語한국어🙂',
]


def _look_alike(rng, n):
    """A different name that a normalising file system or a careless comparison would take for n:
    other letter case, or the other Unicode normal form."""
    import unicodedata
    try:
        cands = [n.swapcase(), n.upper(), unicodedata.normalize('NFD', n), unicodedata.normalize('NFC', n), n + '\u0301']
    except Exception:  # noqa
        return None
    cands = [c for c in cands if c != n]
    return rng.choice(cands) if cands else None


def gen_name(rng, used, allow_nonutf8=True):
    for _ in range(100):
        k = rng.random()
        n = None
        if used and rng.random() < 0.06:
            n = _look_alike(rng, rng.choice(sorted(used)))
        if n is not None:
            pass
        elif k < 0.55:
            n = ''.join(rng.choice(NAME_ALPHABETS[0]) for _ in range(rng.randrange(1, 9)))
        elif k < 0.75:
            n = ''.join(rng.choice(NAME_ALPHABETS[1]) for _ in range(rng.randrange(1, 9)))
        elif k < 0.92 or not allow_nonutf8:
            n = ''.join(rng.choice(NAME_ALPHABETS[2]) for _ in range(rng.randrange(1, 6)))
        else:
            raw = bytes(rng.choice([0x80, 0xff, 0xfe, 0xc3, 0x28, 0x41, 0xe2]) for _ in range(rng.randrange(1, 5)))
            n = os.fsdecode(raw)
        if n in ('.', '..') or '/' in n or '\0' in n or n in used or not n.strip('.'):
            continue
        if len(os.fsencode(n)) > 200:
            continue
        used.add(n)
        return n
    raise RuntimeError('name generation failed')


def gen_tree(rng, root, *, mn, mx, nfiles=None, piece=None, pool=None, max_size=None, allow_nonutf8=True,
             fixed_mtime=True):
    """Create a tree of regular files under root; returns {Path: bytes}."""
    root = Path(root)
    root.mkdir(parents=True, exist_ok=True)
    if nfiles is None:
        nfiles = rng.choice([0, 1, 1, 2, 2, 3, 4, 5, 8])
    pool = pool if pool is not None else []
    files = {}
    dirs = [root]
    used = {}
    sizes = interesting_sizes(rng, mn, mx, piece)
    for _ in range(nfiles):
        if rng.random() < 0.3 and len(dirs) < 5:
            parent = rng.choice(dirs)
            d = parent / gen_name(rng, used.setdefault(parent, set()), allow_nonutf8)
            d.mkdir()
            dirs.append(d)
        parent = rng.choice(dirs)
        p = parent / gen_name(rng, used.setdefault(parent, set()), allow_nonutf8)
        size = rng.choice(sizes) if rng.random() < 0.7 else rng.randrange(0, 4 * mx + 64)
        if max_size is not None:
            size = min(size, max_size)
        data = gen_content(rng, max(size, 0), pool)
        if max_size is not None:
            data = data[:max_size]
        p.write_bytes(data)
        if fixed_mtime:
            ns = rng.randrange(10**9, 2 * 10**18 // 1000) * rng.choice([1, 1000, 10**9]) % (4 * 10**18)
            at = rng.randrange(10**9, 10**18)
            os.utime(p, ns=(at, ns))
        pool.append(data)
        files[p] = data
    return files


def read_tree(root):
    """{relative posix path (str, surrogateescaped): (bytes, mtime_ns)} for regular files."""
    out = {}
    root = Path(root)
    if not root.exists():
        return out
    for dp, dn, fn in os.walk(root):
        for f in fn:
            p = Path(dp, f)
            if p.is_symlink() or not p.is_file():
                continue
            out[str(p.relative_to(root))] = (p.read_bytes(), p.stat().st_mtime_ns)
    return out


# ---------------------------------------------------------------- explicit (replayable) tree specs
import base64 as _b64


def _enc_path(rel):
    raw = os.fsencode(rel)
    return {'p': raw.decode('utf-8', 'backslashreplace'), 'pb': _b64.b64encode(raw).decode()}


def tree_spec(rng, *, mn, mx, nfiles=None, piece=None, max_size=None, allow_nonutf8=True, pool=None,
              min_files=0):
    """Like gen_tree but returns a JSON-serialisable spec: [{'p','pb','d'(b64),'mt'}]."""
    if nfiles is None:
        nfiles = rng.choice([0, 1, 1, 2, 2, 3, 4, 5, 8])
    nfiles = max(nfiles, min_files)
    pool = pool if pool is not None else []
    dirs = ['']
    used = {}
    sizes = interesting_sizes(rng, mn, mx, piece)
    out = []
    for _ in range(nfiles):
        if rng.random() < 0.3 and len(dirs) < 5:
            parent = rng.choice(dirs)
            d = os.path.join(parent, gen_name(rng, used.setdefault(parent, set()), allow_nonutf8))
            dirs.append(d)
        parent = rng.choice(dirs)
        rel = os.path.join(parent, gen_name(rng, used.setdefault(parent, set()), allow_nonutf8))
        size = rng.choice(sizes) if rng.random() < 0.7 else rng.randrange(0, 4 * mx + 64)
        size = max(size, 0)
        if max_size is not None:
            size = min(size, max_size)
        data = gen_content(rng, size, pool)
        if max_size is not None:
            data = data[:max_size]
        pool.append(data)
        mt = rng.randrange(10**9, 4 * 10**9) * 10**9 + rng.choice([0, rng.randrange(10**9)])
        if rng.random() < 0.08:
            # time-stamps at the edges: the epoch itself, one nanosecond, before 1970, around 2**31 and 2**32 seconds
            mt = rng.choice([0, 0, 1, -1, -10**9, 999_999_999, 2**31 * 10**9 - 1, 2**31 * 10**9, 2**32 * 10**9 + 5])
        e = _enc_path(rel)
        e['d'] = _b64.b64encode(data).decode()
        e['mt'] = mt
        out.append(e)
    return out


def spec_rel(e):
    return os.fsdecode(_b64.b64decode(e['pb']))


def spec_data(e):
    return _b64.b64decode(e['d'])


def materialize(root, spec):
    """Write the spec under root; returns {absolute Path: (bytes, mtime_ns)}."""
    root = Path(root)
    root.mkdir(parents=True, exist_ok=True)
    out = {}
    for e in spec:
        p = root / spec_rel(e)
        p.parent.mkdir(parents=True, exist_ok=True)
        data = spec_data(e)
        p.write_bytes(data)
        os.utime(p, ns=(e['mt'], e['mt']))
        out[p] = (data, e['mt'])
    return out


import io as _io


class ShortReads(_io.BytesIO):
    """A seekable stream whose read(n) may return fewer than n bytes before the end (as raw
    streams, pipes and throttled wrappers legally do); b'' still means end of stream."""

    def __init__(self, data, rng):
        super().__init__(data)
        self._rng = rng
        self.short = 0

    def read(self, n=-1):
        left = len(self.getbuffer()) - self.tell()
        if n is None or n < 0 or n <= 1 or left <= 1:
            return super().read(n)
        k = self._rng.randrange(1, min(n, left) + 1)
        if k < min(n, left):
            self.short += 1
        return super().read(k)


def look_alike_passwords(pw):
    """Pass-phrases a human or a normalising library would take for pw but that are different byte strings:
    other Unicode normal forms (canonical and compatibility), other letter case of one letter."""
    import unicodedata
    out = []
    try:
        t = pw.decode('utf-8')
    except UnicodeDecodeError:
        return out
    for form in ('NFKC', 'NFC', 'NFD', 'NFKD'):
        v = unicodedata.normalize(form, t).encode('utf-8')
        if v != pw and v not in out:
            out.append(v)
    return out

"""History engine: multi-user command histories (init, add-key, snapshot, delete, clean, restore,
listings; each command a fresh simulated process) driving the real code on SimStore, with the
RefHistory model and the RefFormat reader alongside.  Properties C02, C05, C06, C07, C08, C14,
C15 are oracles over the same engine."""
import base64
import copy
import datetime as _dt
import os
import re
import shutil
from pathlib import Path

from . import gen, harness, ref_format, store, world
from .core import substream


# ------------------------------------------------------------------ case generation
def substream_of(rng, i):
    # one draw that does not disturb the main stream of the generator
    import random
    return random.Random(rng.getstate()[1][i % 600] ^ i).random()


def gen_users(rng, encrypted, max_users=3):
    users = [{'rel': 'owner', 'parent': None}]
    n = rng.choice([1, 2, 2, 3, 3, 4, 4][:max_users + 2 if max_users < 4 else 7])
    n = min(n, max_users)
    for i in range(1, n):
        if encrypted:
            rel = rng.choice(['shared', 'shared', 'independent', 'clone'])
        else:
            rel = 'same'
        users.append({'rel': rel, 'parent': rng.randrange(0, i)})
    stem = 'a long pass phrase shared by everybody in the office, ' * 2 if rng.random() < 0.2 else ''
    stem = stem[:58]
    for i, u in enumerate(users):
        u['password'] = stem + f'pw-{i}-' + ''.join(rng.choice('abcdefghijklmnopqrstuvwxyz') for _ in range(6))
        if substream_of(rng, i) < 0.15:
            u['password'] += rng.choice([' pässwörd', ' 密码', ' \t tab', ' "quoted\\"', ' 🙂', ' ²№ﬁ', ' Ｂｏｂ', '\u00a0x', ' e\u0301'])     # non-ASCII, blanks, quotes, backslash, compatibility characters
        u['kdf'] = rng.choice(['scrypt', 'scrypt', 'scrypt', 'blake2b'])
        u['N'] = rng.choice([1, 2, 2, 3, 4])
        if u['rel'] == 'clone':
            u['password'] = users[u['parent']]['password']
    return users


def gen_contents(rng, mn, mx, n=8):
    pool = []
    sizes = gen.interesting_sizes(rng, mn, mx)
    for _ in range(n):
        size = rng.choice(sizes) if rng.random() < 0.5 else rng.randrange(0, 6 * mx + 40)
        size = min(max(size, 0), 3000)
        pool.append(gen.gen_content(rng, size, pool))
    return [base64.b64encode(c).decode() for c in pool]


def gen_paths(rng, n=6):
    used = {}
    dirs = ['']
    out = []
    for _ in range(n):
        if rng.random() < 0.3 and len(dirs) < 4:
            p = rng.choice(dirs)
            dirs.append(os.path.join(p, gen.gen_name(rng, used.setdefault(p, set()), True)))
        p = rng.choice(dirs)
        out.append(os.path.join(p, gen.gen_name(rng, used.setdefault(p, set()), True)))
    return out


def gen_fileset(rng, paths, ncontents, prev=None):
    """{rel: content index}; biased to overlap with the previous file set."""
    fs = {}
    if prev and rng.random() < 0.7:
        for p, c in prev.items():
            k = rng.random()
            if k < 0.6:
                fs[p] = c                      # unchanged
            elif k < 0.8:
                fs[p] = rng.randrange(ncontents)   # changed
            # else: disappears
    for p in paths:
        if p not in fs and rng.random() < 0.35:
            fs[p] = rng.randrange(ncontents)
    if not fs and rng.random() < 0.9:
        fs[rng.choice(paths)] = rng.randrange(ncontents)
    return fs


def gen_history(seed, label, *, encrypted=None, max_users=3, nops=(3, 10), destructive=True, overlap=False,
                crash_snapshots=False, wrong_unlock=False, foreign_delete=False, decoys=False, reads=True,
                settings=None, filters=False, p_snapshot=0.5, many=0.0, services=False):
    rng = substream(seed, label)
    if settings is None:
        settings = gen.gen_settings(rng, encrypted=encrypted)
        # histories need many chunks per file and no digest collisions
        if settings['chunking']['max_length'] > 256:
            settings['chunking'] = {'min_length': 8, 'max_length': 64}
    enc = settings.get('encryption') is not None
    mn, mx = settings['chunking']['min_length'], settings['chunking']['max_length']
    users = gen_users(rng, enc, max_users)
    contents = gen_contents(rng, mn, mx)
    paths = gen_paths(rng)
    ops = []
    prev = None
    t = 0.0
    nsnap = 0
    for _ in range(rng.randrange(*nops)):
        u = rng.randrange(len(users))
        k = rng.random()
        t += rng.choice([1e-6, 0.5, 1.0, 60.0, 86400.0, rng.random() * 1000])
        at = round(t, 6) if rng.random() < 0.7 else float(int(t) + 1)
        t = max(t, at)
        if k < p_snapshot or nsnap == 0:
            fs = dict(prev) if (prev and rng.random() < 0.2) else gen_fileset(rng, paths, len(contents), prev)
            prev = fs
            op = {'op': 'snapshot', 'u': u, 'files': fs, 'at': at, 'mt': rng.randrange(10**9, 2 * 10**9),
                  'note': rng.choice([None, None, 'note ' + ''.join(rng.choice('abcxyz 012') for _ in range(7))])}
            if substream(seed, f'{label}/mt{len(ops)}').random() < 0.06:
                op['mt'] = 0        # files stamped with the epoch itself (mtime_ns == 0 for the first of them)
            if crash_snapshots and rng.random() < 0.3:
                op['crash_at'] = rng.randrange(0, 8)
            if overlap and rng.random() < 0.3:
                u2 = rng.randrange(len(users))
                if rng.random() < 0.6:
                    fs2 = gen_fileset(rng, paths, len(contents), fs)
                    t += 1.0
                    op2 = {'op': 'snapshot', 'u': u2, 'files': fs2, 'at': at + 1.0, 'mt': rng.randrange(10**9, 2 * 10**9), 'note': None,
                           'dir': 'src2'}
                else:
                    op2 = {'op': rng.choice(['restore', 'ls', 'lf']), 'u': u2}
                op = {'op': 'par', 'a': op, 'b': op2}
            ops.append(op)
            nsnap += 1
        elif k < 0.68 and destructive:
            ops.append({'op': 'delete', 'u': u, 'pick': [rng.randrange(0, 8) for _ in range(rng.choice([1, 1, 2]))]})
        elif k < 0.8 and destructive:
            ops.append({'op': 'clean', 'u': u})
        elif k < 0.85 and foreign_delete and len(users) > 1:
            ops.append({'op': 'delete_foreign', 'u': u, 'pick': rng.randrange(0, 8)})
        elif k < 0.9 and wrong_unlock and enc and len(users) > 1:
            ops.append({'op': 'unlock_wrong', 'u': u, 'other': rng.randrange(len(users)), 'what': rng.choice(['password', 'key', 'near', 'near']),
                        'variant': rng.randrange(4)})
        elif reads:
            op = {'op': rng.choice(['restore', 'ls', 'lf']), 'u': u}
            if filters:
                op.update(gen_filters(rng, op['op'], paths))
            ops.append(op)
    dec = None
    if decoys:
        dec = {name: base64.b64encode(rng.randbytes(rng.randrange(0, 40))).decode()
               for name in rng.sample(['README', 'other/prefix/x', 'database/file', 'snapshots.bak/aa/bb-cc', 'datafile',
                                       'config.old', 'keys/k1', 'zzz'], rng.randrange(1, 4))}
    crng = substream(seed, label + '/clock')
    snaps_idx = [i for i, o in enumerate(ops) if o['op'] == 'snapshot']
    if len(snaps_idx) >= 2 and crng.random() < 0.15:
        # the wall clock was stepped back before this command: it is stamped earlier than a snapshot taken before it
        # (time-stamps stay distinct)
        j = crng.choice(snaps_idx[1:])
        earlier = ops[crng.choice([i for i in snaps_idx if i < j])]['at']
        taken = {o['at'] for o in ops if 'at' in o}
        at = round(earlier - crng.choice([0.000001, 0.5, 3.0, 86400.0]), 6)
        while at in taken:
            at = round(at - 0.25, 6)
        ops[j]['at'] = at
        ops[j]['clock_stepped_back'] = True
    mrng = substream(seed, label + '/many')
    if many and mrng.random() < many:
        # a repository with at least 10 x concurrency snapshots (the size of replicat's internal queues):
        # everybody works with one connection and the history starts with a run of small snapshots
        for u in users:
            u['N'] = 1
        head = []
        for j in range(mrng.randrange(10, 14)):
            fs = {mrng.choice(paths): mrng.randrange(len(contents)) for _ in range(mrng.choice([1, 1, 2]))}
            head.append({'op': 'snapshot', 'u': mrng.randrange(len(users)), 'files': fs, 'at': -1000.0 + j,
                         'mt': mrng.randrange(10**9, 2 * 10**9), 'note': None})
        ops = head + ops
    # some users are long-running programs that keep their Repository object (and adapter, loop,
    # threads) from one command to the next; the others start a process per command, as the CLI does
    lrng = substream(seed, label + '/live')
    live = sorted(u for u in range(len(users)) if lrng.random() < 0.5) if lrng.random() < 0.4 else []
    shared_object = bool(live) and len(live) > 1 and lrng.random() < 0.5
    if shared_object:
        # one program, one Repository object, hence one concurrency setting for everybody it serves
        for u in live:
            users[u]['N'] = users[live[0]]['N']
    return {
        'seed': seed, 'sched_seed': seed, 'settings': settings, 'users': users, 'contents': contents, 'ops': ops,
        'decoys': dec, 'live': live, 'shared_object': shared_object,
        'flavour': rng.choice(['sync', 'async']), 'lat_kind': rng.choice(['zero', 'uniform', 'heavy']),
        'lat': rng.choice([0.001, 0.02]), 'opts': world.SchedOpts.swarm(rng).as_dict(),
        'list_order': rng.choice(['sorted', 'shuffled']),
        'list_page': mrng.choice([None, None, 1, 2, 5]),
        'backend': mrng.choice([None] * 6 + ['b2', 's3']) if services else None,
        'svc_page': mrng.choice([1, 2, 3, 1000]),
    }


SNAP_COLS = ['name', 'note', 'timestamp', 'file_count', 'size']
FILE_COLS = ['snapshot_name', 'snapshot_date', 'path', 'chunk_count', 'size', 'digest', 'atime', 'mtime', 'ctime']


def gen_filters(rng, kind, paths):
    out = {}
    k = rng.random()
    if k < 0.35:
        out['sre'] = None
    elif k < 0.55:
        out['sre'] = {'k': 'prefix', 'i': rng.randrange(8), 'n': rng.choice([1, 2, 4, 8, 200])}
    elif k < 0.7:
        out['sre'] = {'k': 'alt', 'is': [rng.randrange(8) for _ in range(rng.choice([1, 2, 3]))]}
    elif k < 0.85:
        out['sre'] = {'k': 'sub', 'i': rng.randrange(8), 'a': rng.randrange(0, 20), 'n': rng.choice([1, 2, 3, 6])}
    elif k < 0.93:
        out['sre'] = {'k': 'lit', 're': rng.choice(['^[0-7]', '[a-f]$', '^zzz', '0|1', '^.*$', ''])}
    else:
        out['sre'] = {'k': 'lit', 're': '^nomatch'}
    if kind in ('restore', 'lf'):
        k = rng.random()
        p = rng.choice(paths)
        base = os.path.basename(p)
        if k < 0.35:
            out['fre'] = None
        elif k < 0.5:
            out['fre'] = re.escape(base) + '$'
        elif k < 0.6:
            out['fre'] = re.escape(p)
        elif k < 0.7:
            out['fre'] = '|'.join(re.escape(os.path.basename(q)) + '$' for q in rng.sample(paths, min(len(paths), 2)))
        elif k < 0.8:
            out['fre'] = re.escape(base[:1])
        elif k < 0.88:
            out['fre'] = '^/dev/'
        elif k < 0.94:
            out['fre'] = '/src/' + re.escape(p.split('/')[0])
        else:
            out['fre'] = rng.choice(['^nomatch', '^$', '.', re.escape(base[-1:]) + '$'])
    if kind == 'ls' and rng.random() < 0.6:
        out['columns'] = rng.sample(SNAP_COLS, rng.randrange(1, len(SNAP_COLS) + 1))
    if kind == 'lf' and rng.random() < 0.6:
        out['columns'] = rng.sample(FILE_COLS, rng.randrange(1, len(FILE_COLS) + 1))
    if kind in ('ls', 'lf'):
        out['header'] = rng.random() < 0.7
    return out


# ------------------------------------------------------------------ model
def _content(c):
    """A content of the pool: base64 text, or 'rand:<seed>:<size>' for large seeded contents."""
    if c.startswith('rand:'):
        _, sd, size = c.split(':')
        import random
        return random.Random(int(sd)).randbytes(int(size))
    return base64.b64decode(c)


class SnapModel:
    def __init__(self, name, loc, owner, files, at, note):
        self.name, self.loc, self.owner, self.files, self.at, self.note = name, loc, owner, files, at, note
        self.alive = True


class Violation(Exception):
    def __init__(self, cls, msg, sig=None):
        self.cls, self.msg, self.sig = cls, msg, sig or {}


# ------------------------------------------------------------------ engine
class ServiceUniverse:
    """The repository lives in a fake B2 / S3 service behind the real adapter (httpx transport seam):
    histories then also exercise what the adapters make of the services' own semantics (B2 keeps
    every upload of a name as a version; listings come in pages)."""

    def __init__(self, H, kind, page, lat):
        from . import fakes
        self.H, self.kind, self.fakes = H, kind, fakes
        if kind == 's3':
            self.svc = fakes.FakeS3(bucket='bkt', key_id='AKID', secret='secret/key+1', region='us-east-1', host='s3.fake.test',
                                    page_size=page, latency=lat, faults=[], request_budget=None)
        else:
            self.svc = fakes.FakeB2(bucket_name='bkt', bucket_id='bid', key_id='kid', application_key='akey', page_size=page,
                                    latency=lat, faults=[], request_budget=None)
        self.jpos = 0
        H.W.make_backend_override = self.make
        H.W.after_run = self.after

    def make(self):
        return self.fakes.make_s3(self.svc) if self.kind == 's3' else self.fakes.make_b2(self.svc)

    def after(self, r):
        st = self.H.W.state
        st.objects = dict(self.svc.objects)
        for (o, name, size) in self.svc.journal[self.jpos:]:
            st.journal.append(('svc', 'upload' if o == 'put' else 'delete', name, size))
        self.jpos = len(self.svc.journal)

    def put_raw(self, name, data):
        if self.kind == 's3':
            self.svc.objects[name] = data
        else:
            self.svc.versions[name] = [('upload', data, 'raw-' + name)]
        self.H.W.state.objects[name] = data


class History:
    def __init__(self, case, check, oracles):
        self.case = case
        self.oracles = set(oracles)
        self.W = harness.World(case['sched_seed'], check, flavour=case['flavour'], lat_kind=case['lat_kind'],
                               lat=case['lat'], list_order=case['list_order'])
        self.W.list_page = case.get('list_page')
        self.universe = None
        if case.get('backend') in ('b2', 's3'):
            self.universe = ServiceUniverse(self, case['backend'], case.get('svc_page', 1000), case['lat'] if case['lat_kind'] != 'zero' else 0.0)
        self.opts = world.SchedOpts.from_dict(case['opts'])
        self.viol = []
        self.probes = {}
        if self.universe is not None:
            self.probes['backend_' + case['backend']] = 1
        self.snaps = []
        self.clients = []
        self.refs = []          # RefRepo per user
        self.contents = [_content(c) for c in case['contents']]
        self.enc = case['settings'].get('encryption') is not None
        self.orphans_possible = False
        self.opi = -1
        self.epoch = self.W.env.epoch
        self.keyfiles = []      # serialized key files emitted (for C05)
        self.stdouts = []       # (op, stdout) of init / add-key
        self.extra_outputs = [] # (label, bytes) of anything else the commands emitted (key files written with -o)
        self.all_uploads = []   # (name, bytes) ever uploaded (C05 monitor)
        self.live_users = set(case.get('live') or ())
        self.W.live_shared = bool(case.get('shared_object'))

    def flag(self, cls, msg, **sig):
        self.viol.append({'cls': cls, 'msg': f'[op {self.opi}] ' + msg, 'sig': sig})

    def probe(self, k):
        self.probes[k] = self.probes.get(k, 0) + 1

    # ---- setup: init + keys
    def setup(self):
        W, case = self.W, self.case
        if 'secrecy' in self.oracles:
            W.state.payload_log = []
            W.env.urandom_log = []
        seq = world.SchedOpts.sequential()
        users = case['users']
        for i, u in enumerate(users):
            self.clients.append(world.Client(f'u{i}', password=u['password'].encode() if self.enc else None,
                                             concurrent=u['N']))
        r = W.init(self.clients[0], case['settings'], seq, profile=W.profile(lat_kind='zero'))
        if not r.ok:
            raise RuntimeError(f'init failed in harness: {r.outcome()} {r.exc!r}')
        self.stdouts.append(('init', r.stdout))
        if self.enc:
            self.keyfiles.append(self.clients[0].key)
        for i, u in enumerate(users[1:], 1):
            if not self.enc:
                continue
            parent = self.clients[u['parent']]
            kw = {}
            if u['rel'] == 'shared':
                kw = {'shared': True}
            elif u['rel'] == 'clone':
                kw = {'clone': True}
            ks_scrypt = {'encryption': {'kdf': {'name': 'scrypt', 'n': 2 + 2 * (i % 2), 'r': 1 + (i % 3)}}}
            ks = ks_scrypt
            if u.get('kdf') == 'blake2b':
                ks = {'encryption': {'kdf': {'name': 'blake2b'}}}
            r = W.add_key(parent, self.clients[i], settings=ks, opts=seq, profile=W.profile(lat_kind='zero'), **kw)
            if not r.ok and ks is not ks_scrypt and r.exc is not None:
                # keyed BLAKE2b refuses pass-phrases over 64 bytes: this user falls back to scrypt
                self.probe('blake2b_kdf_refused')
                r = W.add_key(parent, self.clients[i], settings=ks_scrypt, opts=seq, profile=W.profile(lat_kind='zero'), **kw)
            if not r.ok:
                raise RuntimeError(f'add-key failed in harness: {r.outcome()} {r.exc!r}')
            self.stdouts.append(('add-key', r.stdout))
            self.keyfiles.append(self.clients[i].key)
            if case.get('key_output'):
                # the same add-key with -o <file>, issued twice: the file is new the first time and exists the second time;
                # whatever lands in the file and on stdout is observable
                kp = W.dir / f'key-{i}.out'
                throwaway = world.Client(f'x{i}', password=self.clients[i].password, concurrent=1)
                for rep in range(2):
                    rr = W.add_key(parent, throwaway, settings=ks_scrypt, opts=seq, profile=W.profile(lat_kind='zero'), key_output_path=kp, **kw)
                    self.stdouts.append((f'add-key -o (file {"existed" if rep else "new"})', rr.stdout))
                    if kp.exists():
                        self.extra_outputs.append((f'key file written by add-key -o ({"second" if rep else "first"} time)', kp.read_bytes()))
                    self.probe('addkey_output_file_existing' if rep else 'addkey_output_file_new')
        cfg = W.state.objects['config']
        for i, c in enumerate(self.clients):
            try:
                self.refs.append(ref_format.RefRepo(cfg, c.key, c.password))
            except (ref_format.FormatError, ValueError, KeyError, TypeError) as e:
                raise Violation('format-key', f'config / key file of u{i} does not decode under the documented scheme: {e!r}')
        if case.get('decoys'):
            for name, b in case['decoys'].items():
                if self.universe is not None:
                    self.universe.put_raw(name, base64.b64decode(b))
                else:
                    W.state.objects[name] = base64.b64decode(b)
        self.config_bytes = cfg
        if 'near_miss' in self.oracles and self.enc:
            # a password that differs only in its tail / length never unlocks
            async def noop(repo):
                return True
            rng = substream(case['sched_seed'], 'near-miss')
            for i, c in enumerate(self.clients):
                pw = c.password
                variants = [pw[:-1], pw + b'\n', pw[:64] if len(pw) > 64 else pw + b' ', pw[:-1] + bytes([pw[-1] ^ 1])]
                v = variants[rng.randrange(4)] if len(pw) <= 64 else variants[2]
                tries = [v] if v != pw else []
                alike = gen.look_alike_passwords(pw)
                if alike:
                    tries.append(alike[rng.randrange(len(alike))])      # same text to the eye, other Unicode form
                    self.probe('near_miss_unicode_form')
                for v in tries:
                    self.probe('near_miss_unlock')
                    r = W.run(world.Client('x', password=v, key=c.key, concurrent=1), noop, seq)
                    if r.ok:
                        raise Violation('access-unlock', f'key of u{i} (pass-phrase of {len(pw)} bytes) also unlocks with a different pass-phrase of {len(v)} bytes',
                                        {'what': 'near-miss'})

    def is_live(self, u):
        """Does this command of user u run inside u's long-lived process?  (Now and then the same
        user also works from elsewhere: a process of its own, as the CLI starts one.)"""
        if u in self.live_users:
            if substream(self.case['sched_seed'], f'live-op{self.opi}').random() < 0.7:
                self.probe('live_process_command')
                if self.W.live_shared:
                    self.probe('live_object_shared_by_users')
                return True
            self.probe('live_user_other_process')
        return False

    def family(self, u):
        return self.refs[u].family_id()

    def can_read(self, u, snap):
        """User u can decrypt the private part of snap (same user key)."""
        if not self.enc:
            return True
        return self.refs[u].userkey == self.refs[snap.owner].userkey

    def can_see(self, u, snap):
        return (not self.enc) or self.family(u) == self.family(snap.owner)

    # ---- running
    def run(self):
        try:
            try:
                self.setup()
            except Violation as v:
                self.viol.append({'cls': v.cls, 'msg': v.msg, 'sig': v.sig})
                return self.result()
            if 'format' in self.oracles or 'store' in self.oracles:
                self.check_store(after='setup')
            if getattr(self, 'post_setup', None) is not None:
                self.post_setup(self)
            for i, op in enumerate(self.case['ops']):
                self.opi = i
                self.step(op)
                if self.viol:
                    break
            if not self.viol and 'restore_all' in self.oracles:
                self.opi = len(self.case['ops'])
                self.check_restore_all()
            if not self.viol and 'secrecy' in self.oracles:
                self.opi = len(self.case['ops'])
                self.check_secrecy()
        finally:
            self.W.close()
        return self.result()

    def result(self):
        W = self.W
        return {'violations': self.viol, 'digest': W.digest(), 'nontrivial': len(self.snaps) > 0,
                'fired': dict(W.fired), 'probes': self.probes, 'sim_s': W.sim_s, 'steps': W.sim_steps,
                'sample': {'users': [(u['rel'], u['parent']) for u in self.case['users']],
                           'encrypted': self.enc, 'chunking': self.case['settings']['chunking'],
                           'ops': [_op_summary(o) for o in self.case['ops']]}}

    def materialize(self, op):
        d = self.W.dir / op.get('dir', 'src')
        shutil.rmtree(d, ignore_errors=True)
        d.mkdir(parents=True)
        files = {}
        for j, (rel, ci) in enumerate(sorted(op['files'].items())):
            p = d / rel
            p.parent.mkdir(parents=True, exist_ok=True)
            data = self.contents[ci % len(self.contents)]
            p.write_bytes(data)
            mt = (op['mt'] + j) * 10**9 + (j * 1001) % 10**9
            os.utime(p, ns=(mt, mt))
            files[str(p)] = (data, mt)
        return d, files

    def set_clock(self, op):
        if 'at' in op:
            self.W.env.fixed_utcnow = self.epoch + _dt.timedelta(seconds=op['at'])
        else:
            self.W.env.fixed_utcnow = None

    def live(self, u=None, readable_by=None):
        return [s for s in self.snaps if s.alive and (u is None or s.owner == u)
                and (readable_by is None or self.can_read(readable_by, s))]

    def step(self, op):
        kind = op['op']
        self.opres = {}
        before = dict(self.W.state.objects)
        jstart = len(self.W.state.journal)
        getattr(self, 'op_' + kind)(op, before)
        self.all_uploads += [(n, self.W.state.objects.get(n)) for (_, o, n, _) in self.W.state.journal[jstart:] if o == 'upload']
        if self.viol:
            return
        self.after_command(op, before, jstart)

    # ---- operations
    def op_snapshot(self, op, before):
        u = op['u']
        d, files = self.materialize(op)
        self.set_clock(op)
        if op.get('clock_stepped_back'):
            self.probe('clock_stepped_back')
        prof = self.W.profile(crash_at=op.get('crash_at'), exists_lies_p=self.case.get('exists_lies_p', 0.0),
                              crash_commit_inflight=substream(self.case['sched_seed'], f'crash{self.opi}') if 'crash_at' in op else None)
        r = self.W.snapshot(self.clients[u], [d], self.opts, note=op.get('note'), profile=prof, live=self.is_live(u))
        self.opres['r'] = r
        if r.crashed:
            self.orphans_possible = True
            self.probe('crashed_snapshot')
            # the snapshot object may or may not have made it
            new = [k for k in self.W.state.objects if k.startswith('snapshots/') and k not in before]
            self.W.state.frozen = False
            for loc in new:
                name, _ = ref_format.RefRepo.parse_snapshot_location(loc)
                self.snaps.append(SnapModel(name, loc, u, files, op['at'], op.get('note')))
                self.probe('crashed_snapshot_visible')
            return
        if not r.ok:
            self.flag('command-failed', f'snapshot by u{u} failed: {r.outcome()} {r.exc or r.hang!r}', op='snapshot')
            return
        sm = SnapModel(r.value['name'], r.value['location'], u, files, op['at'], op.get('note'))
        sm.ts = r.value['data']['utc_timestamp']
        if self.W.env.fixed_utcnow is not None:
            # the recorded time-stamp is the (simulated) UTC time of the command, whatever the process's time zone
            try:
                rec = _dt.datetime.fromisoformat(sm.ts)
            except (TypeError, ValueError):
                rec = None
            if rec is None or rec.replace(tzinfo=None) != self.W.env.fixed_utcnow:
                self.flag('timestamp-not-utc', f'snapshot by u{u} taken at {self.W.env.fixed_utcnow.isoformat()} UTC records utc_timestamp {sm.ts!r}', op='snapshot')
                return
        self.snaps.append(sm)
        self.last_snapshot_backend = r.backend

    def op_delete(self, op, before):
        u = op['u']
        # "own" = everything under u's user key, whichever of its holders took the snapshot
        mine = self.live(readable_by=u)
        if not mine:
            return
        victims = []
        for k in op['pick']:
            s = mine[k % len(mine)]
            if s not in victims:
                victims.append(s)
        r = self.W.delete(self.clients[u], [s.name for s in victims], self.opts, live=self.is_live(u))
        self.opres['r'] = r
        if not r.ok:
            self.flag('command-failed', f'delete by u{u} of own snapshots failed: {r.outcome()} {r.exc or r.hang!r}', op='delete')
            return
        for s in victims:
            s.alive = False
        self.opres['victims'] = victims
        self.probe('delete')

    def op_delete_foreign(self, op, before):
        u = op['u']
        others = [s for s in self.snaps if s.alive and not self.can_read(u, s)]
        if not others:
            return
        s = others[op['pick'] % len(others)]
        r = self.W.delete(self.clients[u], [s.name], self.opts, live=self.is_live(u))
        self.opres['r'] = r
        self.probe('foreign_delete_shared' if self.can_see(u, s) else 'foreign_delete_independent')
        if r.ok:
            self.flag('access-delete-foreign', f'u{u} deleted snapshot {s.name[:12]} of u{s.owner} whose private data it cannot read '
                      f'(relation: {"shared family" if self.can_see(u, s) else "independent"})', visible=self.can_see(u, s))
            return
        if r.hang or r.crashed:
            self.flag('command-failed', f'delete (foreign) did not terminate: {r.outcome()}', op='delete_foreign')
            return
        if self.W.state.objects != before:
            self.flag('access-delete-foreign-mutated', f'refused delete of a foreign snapshot by u{u} changed the store anyway', visible=self.can_see(u, s))

    def op_clean(self, op, before):
        u = op['u']
        r = self.W.clean(self.clients[u], self.opts, live=self.is_live(u))
        self.opres['r'] = r
        if not r.ok:
            self.flag('command-failed', f'clean by u{u} failed: {r.outcome()} {r.exc or r.hang!r}', op='clean')
            return
        self.probe('clean')

    def op_unlock_wrong(self, op, before):
        u, o = op['u'], op['other']
        cu, co = self.clients[u], self.clients[o]
        if op['what'] == 'password':
            pw, key = co.password + b'x' if co.password == cu.password else co.password, cu.key
        elif op['what'] == 'near':
            v = op.get('variant', 0) % 4
            pw = [cu.password[:-1], cu.password + b'\n', cu.password[:64] if len(cu.password) > 64 else cu.password + b' ',
                  cu.password[:-1] + bytes([cu.password[-1] ^ 1])][v]
            key = cu.key
        else:
            pw, key = cu.password, co.key
        if op['what'] != 'near' and self.refs[u].userkey == self.refs[o].userkey and op['what'] == 'key':
            return
        # does the (key, password) pair legitimately match?  decided by the reference reader
        try:
            ref_format.RefRepo(self.config_bytes, key, pw)
            legit = True
        except ref_format.FormatError:
            legit = False
        c = world.Client('x', password=pw, key=key, concurrent=1)

        async def act(repo):
            return True
        r = self.W.run(c, act, self.opts)
        self.probe('unlock_mismatch')
        if legit:
            return
        if r.ok:
            self.flag('access-unlock', f'repository unlocked with key of u{u if op["what"] == "password" else o} and a password that does not match it',
                      what=op['what'])
        elif r.hang or r.crashed:
            self.flag('command-failed', f'unlock did not terminate: {r.outcome()}', op='unlock')

    def resolve(self, op):
        """Filter specs -> concrete regexes (snapshot names are only known at run time)."""
        op = dict(op)
        spec = op.pop('sre', None)
        if 'fre' in op:
            op['file_regex'] = op.pop('fre')
        if spec is None or not self.snaps:
            if spec is not None and spec['k'] == 'lit':
                op['snapshot_regex'] = spec['re']
            return op
        names = [s.name for s in self.snaps]
        if spec['k'] == 'prefix':
            op['snapshot_regex'] = '^' + names[spec['i'] % len(names)][:spec['n']]
        elif spec['k'] == 'alt':
            op['snapshot_regex'] = '|'.join('^' + names[i % len(names)] + '$' for i in spec['is'])
        elif spec['k'] == 'sub':
            n = names[spec['i'] % len(names)]
            op['snapshot_regex'] = n[spec['a'] % len(n):][:spec['n']]
        else:
            op['snapshot_regex'] = spec['re']
        return op

    def op_restore(self, op, before):
        op = self.resolve(op)
        u = op['u']
        target = self.W.dir / f'restore-{self.opi}'
        shutil.rmtree(target, ignore_errors=True)
        r = self.W.restore(self.clients[u], target, self.opts, snapshot_regex=op.get('snapshot_regex'),
                           file_regex=op.get('file_regex'), live=self.is_live(u))
        self.opres['r'] = r
        if not r.ok:
            self.flag('command-failed', f'restore by u{u} failed: {r.outcome()} {r.exc or r.hang!r}', op='restore')
            return
        if 'selection' in self.oracles:
            self.check_restore_result(u, target, r, op.get('snapshot_regex'), op.get('file_regex'))
        shutil.rmtree(target, ignore_errors=True)

    def op_ls(self, op, before):
        op = self.resolve(op)
        u = op['u']
        r = self.W.list_snapshots(self.clients[u], self.opts, snapshot_regex=op.get('snapshot_regex'),
                                  header=op.get('header', True), columns=_cols(op.get('columns'), 'SnapshotListColumn'),
                                  live=self.is_live(u))
        self.opres['r'] = r
        if not r.ok:
            self.flag('command-failed', f'list-snapshots by u{u} failed: {r.outcome()} {r.exc or r.hang!r}', op='ls')
            return
        if 'listing' in self.oracles:
            self.check_ls(u, r.stdout, op)

    def op_lf(self, op, before):
        op = self.resolve(op)
        u = op['u']
        r = self.W.list_files(self.clients[u], self.opts, snapshot_regex=op.get('snapshot_regex'),
                              file_regex=op.get('file_regex'), header=op.get('header', True),
                              columns=_cols(op.get('columns'), 'FileListColumn'), live=self.is_live(u))
        self.opres['r'] = r
        if not r.ok:
            self.flag('command-failed', f'list-files by u{u} failed: {r.outcome()} {r.exc or r.hang!r}', op='lf')
            return
        if 'listing' in self.oracles:
            self.check_lf(u, r.stdout, op)

    def op_par(self, op, before):
        """Two non-destructive commands overlapping in time: two Repository objects, two
        backend adapters, one loop, one store."""
        import asyncio
        import replicat.repository as R
        a, b = op['a'], op['b']
        W = self.W
        da, fa = self.materialize(a)
        targets = {}
        if b['op'] == 'snapshot':
            db, fb = self.materialize(b)
        self.W.env.fixed_utcnow = None
        base_at = a['at']
        # distinct timestamps for the two snapshots: real clock of the simulated process
        self.W.env.epoch_shift = None
        results = {}

        def mk(op_, files_dir):
            client = self.clients[op_['u']]

            async def run_one(res):
                backend = W.factory(W.profile())()
                repo = R.Repository(backend, concurrent=client.concurrent, quiet=True, cache_directory=None)
                await repo.unlock(password=client.password, key=client.key)
                if op_['op'] == 'snapshot':
                    r = await repo.snapshot(paths=[files_dir], note=op_.get('note'))
                    out = {'name': r.name, 'location': r.location}
                elif op_['op'] == 'restore':
                    t = W.dir / f'restore-par-{self.opi}'
                    shutil.rmtree(t, ignore_errors=True)
                    targets['t'] = t
                    r = await repo.restore(path=t)
                    out = {'files': r.files}
                elif op_['op'] == 'ls':
                    out = await repo.list_snapshots()
                else:
                    out = await repo.list_files()
                await repo.close()
                return out
            return run_one

        async def main(res):
            ra, rb = await asyncio.gather(mk(a, da)(res), mk(b, db if b['op'] == 'snapshot' else None)(res),
                                          return_exceptions=True)
            return ra, rb
        # run at a clock where both snapshots get distinct, later timestamps
        W.env.fixed_utcnow = None
        W.env.clock_offset = base_at - W.env.now
        r = world.run_process(W.env, main, self.opts)
        if W.after_run is not None:
            W.after_run(r)
        W.env.clock_offset = 0.0
        W.sim_steps += r.stats['steps']
        W.sim_s += r.stats['sim_s']
        W.switches += r.stats['switches']
        W.digests.append(r.digest)
        self.probe('overlap_' + b['op'])
        if not r.ok:
            self.flag('command-failed', f'overlapping commands did not finish: {r.outcome()} {r.exc or r.hang!r}', op='par')
            return
        ra, rb = r.value
        for x, o in ((ra, a), (rb, b)):
            if isinstance(x, BaseException):
                self.flag('command-failed', f'overlapping {o["op"]} by u{o["u"]} failed: {x!r}', op='par-' + o['op'])
                return
        # the wall-clock of the process decided the timestamps: read them back with the owner's key
        for x, o, f in ((ra, a, fa), (rb, b, fb if b['op'] == 'snapshot' else None)):
            if o['op'] == 'snapshot':
                dec = self.refs[o['u']].decode_snapshot(W.state.objects[x['location']], x['location'])
                ts = dec['data']['utc_timestamp']
                sm = SnapModel(x['name'], x['location'], o['u'], f, ts, o.get('note'))
                sm.ts = ts
                self.snaps.append(sm)
        if 't' in targets:
            shutil.rmtree(targets['t'], ignore_errors=True)

    # ---- oracles after each command
    def after_command(self, op, before, jstart):
        W = self.W
        objs = W.state.objects
        journal = W.state.journal[jstart:]
        kind = op['op']
        if 'store' in self.oracles or 'format' in self.oracles:
            self.check_store(after=kind)
        if self.viol:
            return
        if 'journal' in self.oracles:
            referenced = self.referenced_locations()
            for (proc, o, name, size) in journal:
                if o == 'delete' and name in referenced:
                    self.flag('referenced-chunk-deleted', f'{kind}: chunk {name} is referenced by a remaining snapshot and was deleted', op=kind)
                    return
        if 'confined' in self.oracles and kind in ('delete', 'clean', 'delete_foreign'):
            self.check_confined(op, before, journal)
        if 'dedup' in self.oracles:
            self.check_dedup(op, before, journal)
        if 'gc' in self.oracles and kind in ('delete', 'clean') and self.opres.get('r') is not None and self.opres['r'].ok:
            self.check_gc(op, before)
        if 'restore_all' in self.oracles and kind in ('delete', 'clean') and not self.viol:
            self.check_restore_all()

    def snapshot_tables(self):
        """{loc: (family, decoded-by-family-representative)} for every stored snapshot object."""
        objs = self.W.state.objects
        out = {}
        fams = {}
        for u, ref in enumerate(self.refs):
            fams.setdefault(ref.family_id(), u)
        for loc in sorted(k for k in objs if k.startswith('snapshots/')):
            owner = None
            for fid, u in fams.items():
                try:
                    if self.refs[u].owns_snapshot_location(loc):
                        owner = (fid, u)
                        break
                except ref_format.FormatError:
                    pass
            out[loc] = owner
        return out, fams

    def referenced_locations(self):
        objs = self.W.state.objects
        tables, fams = self.snapshot_tables()
        ref = set()
        for loc, owner in tables.items():
            if owner is None:
                continue
            fid, u = owner
            try:
                dec = self.refs[u].decode_snapshot(objs[loc], loc)
                for d in dec['chunks']:
                    ref.add(self.refs[u].chunk_location(d))
            except (ref_format.FormatError, TypeError, ValueError, KeyError, AttributeError):
                continue
        return ref

    def check_store(self, after):
        try:
            self._check_store(after)
        except (TypeError, ValueError, KeyError, AttributeError, IndexError, ref_format.FormatError) as e:
            # the independent reader met something that is not of the documented shape
            self.flag('format-undecodable', f'after {after}: stored data is not of the documented shape: {e!r}', after=after)

    def _check_store(self, after):
        """RefFormat reads the whole store: every name and object decodes under the documented
        scheme; every referenced chunk exists and hashes to its digest; listed == model."""
        objs = self.W.state.objects
        tables, fams = self.snapshot_tables()
        model_locs = {s.loc: s for s in self.snaps if s.alive}
        stored = set(tables)
        if stored != set(model_locs):
            lost = sorted(set(model_locs) - stored)
            extra = sorted(stored - set(model_locs))
            if lost:
                self.flag('snapshot-lost', f'after {after}: snapshot objects that should remain are gone: {lost[:3]}', after=after)
            else:
                self.flag('snapshot-unexpected', f'after {after}: unexpected snapshot objects {extra[:3]}', after=after)
            return
        referenced = {}
        for loc, owner in tables.items():
            s = model_locs[loc]
            if owner is None:
                self.flag('format-snapshot-name', f'snapshot name {loc} verifies under no key family', after=after)
                return
            fid, u = owner
            if fid != self.family(s.owner):
                self.flag('format-snapshot-family', f'snapshot {loc} by u{s.owner} carries the tag of another family', after=after)
                return
            try:
                dec = self.refs[s.owner].decode_snapshot(objs[loc], loc)
            except (ref_format.FormatError, ValueError, KeyError, TypeError) as e:
                self.flag('format-snapshot', f'snapshot {loc} does not decode under the documented scheme: {e!r}', after=after)
                return
            if dec['data'] is None:
                self.flag('format-snapshot', f'snapshot {loc}: private data does not decrypt under its owner\'s user key', after=after)
                return
            # who else can read it (C06 / C14): exactly the holders of the same user key
            for v, ref in enumerate(self.refs):
                if not self.enc or v == s.owner:
                    continue
                try:
                    d2 = ref.decode_snapshot(objs[loc], loc)
                    readable, table_ok = d2['data'] is not None, True
                except ref_format.FormatError:
                    readable, table_ok = False, False
                if readable != self.can_read(v, s):
                    self.flag('access-private-data', f'snapshot of u{s.owner}: private data readable by u{v} = {readable}, '
                              f'key relation says {self.can_read(v, s)}', after=after)
                    return
                if table_ok != self.can_see(v, s):
                    self.flag('access-chunk-table', f'snapshot of u{s.owner}: chunk table readable by u{v} = {table_ok}, '
                              f'key relation says {self.can_see(v, s)}', after=after)
                    return
            # content: every file reassembles to the captured bytes; ranges tile the file
            want = s.files
            got_paths = [f['path'] for f in dec['data']['files']]
            if sorted(got_paths) != sorted(want):
                self.flag('format-files', f'snapshot {s.name[:12]} lists {sorted(got_paths)[:4]}, captured {sorted(want)[:4]}', after=after)
                return
            for f in dec['data']['files']:
                try:
                    data = self.refs[s.owner].file_bytes(dec, f, objs)
                except ref_format.FormatError as e:
                    missing = 'missing' in str(e)
                    self.flag('chunk-missing' if missing else 'chunk-undecodable',
                              f'snapshot {s.name[:12]} of u{s.owner}, file {f["path"]!r}: {e}', after=after)
                    return
                if data != want[f['path']][0]:
                    self.flag('content-differs', f'snapshot {s.name[:12]} file {f["path"]!r}: stored chunks reassemble to '
                              f'{len(data)} bytes != captured {len(want[f["path"]][0])} bytes (or different bytes)', after=after)
                    return
                md = f['metadata']
                if md is None or md.get('st_mtime_ns') != want[f['path']][1]:
                    self.flag('format-metadata', f'snapshot {s.name[:12]} file {f["path"]!r}: metadata {md} != captured mtime {want[f["path"]][1]}', after=after)
                    return
                if f.get('digest') != self.refs[s.owner].hash(data):
                    self.flag('format-file-digest', f'snapshot {s.name[:12]} file {f["path"]!r}: recorded digest is not the hash of the content', after=after)
                    return
            ts = dec['data'].get('utc_timestamp')
            if not isinstance(ts, str):
                self.flag('format-snapshot', f'snapshot {loc}: utc_timestamp missing', after=after)
                return
            if dec['data'].get('note') != s.note:
                self.flag('format-snapshot', f'snapshot {loc}: note {dec["data"].get("note")!r} != {s.note!r}', after=after)
                return
            s.decoded = dec
            s.ts = ts
            for d in dec['chunks']:
                referenced.setdefault(fid, set()).add(self.refs[u].chunk_location(d))
        # chunk area: every object belongs to exactly one family and decodes
        chunk_objs = {}
        for loc in sorted(k for k in objs if k.startswith('data/')):
            owners = []
            for fid, u in fams.items():
                try:
                    if self.refs[u].owns_chunk_location(loc):
                        owners.append(fid)
                except ref_format.FormatError:
                    pass
            if len(owners) != 1:
                self.flag('format-chunk-name', f'chunk object {loc} verifies under {len(owners)} key families', after=after)
                return
            chunk_objs.setdefault(owners[0], set()).add(loc)
        self.referenced = referenced
        self.chunk_objs = chunk_objs
        if 'exact' in self.oracles and not self.orphans_possible:
            for fid in set(referenced) | set(chunk_objs):
                a, b = chunk_objs.get(fid, set()), referenced.get(fid, set())
                if a != b:
                    self.flag('chunk-objects-not-exact', f'after {after}: family {fid}: {len(a)} chunk objects, {len(b)} distinct referenced chunks; '
                              f'unreferenced={sorted(a - b)[:3]} missing={sorted(b - a)[:3]}', after=after, extra=bool(a - b), missing=bool(b - a))
                    return

    def check_restore_all(self):
        for s in self.live():
            target = self.W.dir / 'restore-all'
            shutil.rmtree(target, ignore_errors=True)
            r = self.W.restore(self.clients[s.owner], target, self.opts, snapshot_regex='^' + s.name + '$')
            if not r.ok:
                self.flag('remaining-snapshot-unrestorable', f'snapshot {s.name[:12]} of u{s.owner} is listed but restore failed: '
                          f'{r.outcome()} {r.exc or r.hang!r}', exc=type(r.exc).__name__ if r.exc else r.outcome())
                return
            got = gen.read_tree(target)
            want = {str(harness.restored_path(target, p).relative_to(target)): v for p, v in s.files.items()}
            if got != want:
                self.flag('remaining-snapshot-differs', f'snapshot {s.name[:12]} of u{s.owner} restores to {_tree_summary(got)} '
                          f'!= captured {_tree_summary(want)}')
                return
            shutil.rmtree(target, ignore_errors=True)
            self.probe('restore_all')

    def check_confined(self, op, before, journal):
        """delete / clean touch only the caller family's chunks and snapshots."""
        objs = self.W.state.objects
        u = op['u']
        kind = op['op']
        fam = self.family(u)
        for (proc, o, name, size) in journal:
            if o == 'delete' and not (name.startswith('data/') or name.startswith('snapshots/')):
                self.flag('gc-outside-areas', f'{kind} by u{u} deleted {name!r} outside the chunk and snapshot areas', op=kind)
                return
            if o == 'upload':
                self.flag('gc-uploaded', f'{kind} by u{u} uploaded {name!r}', op=kind)
                return
        for name, data in before.items():
            mine = False
            if name.startswith('data/'):
                try:
                    mine = self.refs[u].owns_chunk_location(name)
                except ref_format.FormatError:
                    mine = False
            elif name.startswith('snapshots/'):
                try:
                    mine = self.refs[u].owns_snapshot_location(name)
                except ref_format.FormatError:
                    mine = False
            if not mine and objs.get(name) != data:
                what = 'config' if name == 'config' else ('foreign family object' if name.startswith(('data/', 'snapshots/')) else 'decoy')
                self.flag('gc-foreign-touched', f'{kind} by u{u} changed/removed {name!r} ({what})', op=kind, what=what)
                return

    def check_gc(self, op, before):
        """Completeness: delete removes chunks referenced only by the deleted snapshots; clean
        leaves exactly the referenced chunks of the caller's family."""
        u = op['u']
        fam = self.family(u)
        objs = self.W.state.objects
        have = self.chunk_objs.get(fam, set())
        refd = self.referenced.get(fam, set())
        if op['op'] == 'clean':
            if have != refd:
                self.flag('clean-incomplete', f'after clean by u{u}: {len(have - refd)} unreferenced chunk objects of its family remain, '
                          f'{len(refd - have)} referenced missing: {sorted(have - refd)[:3]}', left=bool(have - refd))
        else:
            victims = self.opres.get('victims') or []
            only = set()
            for s in victims:
                dec = getattr(s, 'decoded', None)
                if dec is None:
                    continue
                for d in dec['chunks']:
                    only.add(self.refs[u].chunk_location(d))
            only -= refd
            left = {l for l in only if l in objs}
            if left:
                self.flag('delete-incomplete', f'after delete by u{u}: {len(left)} chunks referenced only by the deleted snapshots remain: {sorted(left)[:3]}')

    def check_dedup(self, op, before, journal):
        """A snapshot uploads payload only for chunks its family did not have."""
        if op['op'] != 'snapshot' or self.opres.get('r') is None or not self.opres['r'].ok:
            return
        u = op['u']
        ups = [name for (proc, o, name, size) in journal if o == 'upload' and name.startswith('data/')]
        dup = [n for n in ups if n in before]
        if dup:
            self.flag('dedup-reupload', f'snapshot by u{u} uploaded {len(dup)} chunk objects that already existed (e.g. {dup[0]})')
            return
        # unchanged data (same paths, same contents as a live snapshot of the same family) transfers nothing
        mine = self.snaps[-1] if self.snaps and self.snaps[-1].owner == u else None
        if ups and mine is not None and not self.orphans_possible:
            shape = {p: v[0] for p, v in mine.files.items()}
            for other in self.snaps[:-1]:
                if other.alive and self.can_see(u, other) and {p: v[0] for p, v in other.files.items()} == shape:
                    self.flag('unchanged-data-reuploaded', f'snapshot by u{u} of exactly the data of live snapshot {other.name[:12]} (u{other.owner}) '
                              f'uploaded {len(ups)} chunk objects', n=len(ups) > 0)
                    return
        if len(set(ups)) != len(ups) and self.clients[u].concurrent == 1:
            self.flag('dedup-reupload', f'snapshot by u{u} at concurrency 1 uploaded the same chunk twice', twice=True)

    # ---- C05: nothing readable at rest
    def check_secrecy(self):
        W = self.W
        hay = []
        for name, data in W.state.payload_log:
            if name == 'config':
                continue          # algorithm settings are allowed to be readable (members checked by RefRepo)
            hay.append(('object ' + name, data))
            hay.append(('name of ' + name, name.encode()))
        for i, k in enumerate(self.keyfiles):
            hay.append((f'key file {i}', k))
        for what, out in self.stdouts:
            hay.append((f'stdout of {what}', out.encode('utf-8', 'surrogateescape')))
        hay.extend(self.extra_outputs)
        needles = []

        def add(label, raw, text=False):
            if len(raw) < 10:
                return
            needles.append((label, raw))
            if not text:
                needles.append((label + ' (hex)', raw.hex().encode()))
            for off in range(3):
                b = base64.standard_b64encode(b'\0' * off + raw)
                # drop the characters influenced by the padding / the preceding bytes
                b = b[4 * ((off + 2) // 3):len(b) - 4]
                if len(b) >= 12:
                    needles.append((label + f' (base64/{off})', b))
        add('path component', b'replicat-verif', text=True)
        for u in self.case['users']:
            add('password', u['password'].encode(), text=True)
        for s_ in self.snaps:
            if s_.note:
                add('note', s_.note.encode(), text=True)
            for p, (data, mt) in s_.files.items():
                add('mtime', str(mt).encode(), text=True)
                # only windows that are themselves high-entropy (a run of spaces or zeros occurs in any indented JSON)
                for w in (data[:12], data[-12:], data[len(data) // 2:len(data) // 2 + 12] if len(data) > 40 else b''):
                    if len(w) == 12 and len(set(w)) >= 9:
                        add('file content', w)
                add('file digest', self.refs[s_.owner].hash(data))
            dec = getattr(s_, 'decoded', None)
            if dec is not None:
                for d in dec['chunks']:
                    add('chunk digest', d)
        for i, ref in enumerate(self.refs):
            add(f'user key of u{i}', ref.userkey)
            for k in ('shared_key', 'mac_params', 'chunker_params', 'shared_kdf_params'):
                add(f'private.{k} of u{i}', ref.private[k])
        seen = set()
        needles = [n for n in needles if not (n[1] in seen or seen.add(n[1]))]
        self.probes['needles'] = self.probes.get('needles', 0) + len(needles)
        self.probes['haystacks'] = self.probes.get('haystacks', 0) + len(hay)
        for hlabel, h in hay:
            for nlabel, n in needles:
                if n in h:
                    kind = nlabel.split(' (')[0].split(' of ')[0]
                    self.flag('plaintext-at-rest', f'{nlabel} occurs in {hlabel[:120]}', what=kind,
                              where=hlabel.split(' ')[0])
                    return
        # structure of everything written: chunk = nonce||AEAD under KDF(shared, digest); snapshot = two byte strings
        aead = self.refs[0].aead
        fresh = set(W.env.urandom_log)
        by_key = {}
        digests_by_loc = {}
        for s_ in self.snaps:
            dec = getattr(s_, 'decoded', None)
            if dec is None:
                continue
            for d in dec['chunks']:
                digests_by_loc[self.refs[s_.owner].chunk_location(d)] = (s_.owner, d)
        for name, data in W.state.payload_log:
            if name.startswith('data/'):
                if name in digests_by_loc:
                    u, d = digests_by_loc[name]
                    try:
                        self.refs[u].decode_chunk(data, d)
                    except ref_format.FormatError as e:
                        self.flag('structure', f'uploaded chunk {name} is not nonce||AEAD under the documented key: {e}', what='chunk')
                        return
                    by_key.setdefault(('chunk', name), []).append((aead.nonce_of(data), name))
                elif not self.orphans_possible:
                    self.flag('structure', f'uploaded chunk {name} is referenced by no snapshot', what='unreferenced')
                    return
            elif name.startswith('snapshots/'):
                try:
                    body = ref_format.loads(data)
                except ValueError:
                    self.flag('structure', f'snapshot object {name} is not JSON', what='snapshot')
                    return
                if not isinstance(body, dict) or set(body) != {'chunks', 'data'} or not all(isinstance(v, bytes) for v in body.values()):
                    self.flag('structure', f'snapshot object {name}: members {sorted(body) if isinstance(body, dict) else type(body)} '
                              f'are not exactly two byte strings', what='snapshot')
                    return
                owner = next((s_.owner for s_ in self.snaps if s_.loc == name), None)
                if owner is not None:
                    by_key.setdefault(('user', self.refs[owner].userkey), []).append((aead.nonce_of(body['data']), name + ' data'))
                by_key.setdefault(('table', name), []).append((aead.nonce_of(body['chunks']), name + ' chunks'))
        for i, k in enumerate(self.keyfiles):
            key = ref_format.loads(k)
            by_key.setdefault(('user', self.refs[i].userkey), []).append((aead.nonce_of(key['private']), f'key file {i}'))
        for key, lst in by_key.items():
            nonces = [n for n, _ in lst]
            for n, where in lst:
                if n not in fresh:
                    # information only: the property demands distinct nonces per key, not a particular source
                    self.probes['nonce_not_from_rng'] = self.probes.get('nonce_not_from_rng', 0) + 1
            if len(set(nonces)) != len(nonces):
                self.flag('nonce-reuse', f'two ciphertexts under one key share a nonce: {[w for _, w in lst][:4]}', what=key[0])
                return
            self.probes['nonces'] = self.probes.get('nonces', 0) + len(nonces)

    # ---- restore / listing oracles (C06, C15)
    def expected_restore(self, u, snapshot_regex, file_regex):
        sre = re.compile(snapshot_regex) if snapshot_regex is not None else None
        fre = re.compile(file_regex) if file_regex is not None else None
        cands = [s for s in self.live(readable_by=u) if sre is None or sre.search(s.name)]
        cands.sort(key=lambda s: _ts_key(s), reverse=True)
        out = {}
        for s in cands:
            for p, v in s.files.items():
                if p in out:
                    continue
                if fre is not None and fre.search(p) is None:
                    continue
                out[p] = v
        return out

    def check_restore_result(self, u, target, r, snapshot_regex, file_regex):
        want_abs = self.expected_restore(u, snapshot_regex, file_regex)
        want = {str(harness.restored_path(target, p).relative_to(target)): v for p, v in want_abs.items()}
        got = gen.read_tree(target)
        if got != want:
            foreign = False
            for k, v in got.items():
                if k not in want or want[k][0] != v[0]:
                    # is it content of a snapshot the user must not read?
                    for s in self.snaps:
                        if not self.can_read(u, s) and any(v[0] == fv[0] and len(fv[0]) > 0 for fv in s.files.values()):
                            foreign = True
            cls = 'access-restore-foreign' if foreign and self.enc else 'restore-selection'
            self.flag(cls, f'restore by u{u} (S={snapshot_regex!r}, F={file_regex!r}) wrote {_tree_summary(got)}; expected {_tree_summary(want)}')
            return
        if sorted(r.value['files']) != sorted(want_abs):
            self.flag('restore-selection', f'restore().files = {sorted(r.value["files"])[:5]} != expected {sorted(want_abs)[:5]}', what='list')

    def check_ls(self, u, stdout, op):
        rows = _parse_table(stdout, op.get('header', True))
        sre = re.compile(op['snapshot_regex']) if op.get('snapshot_regex') is not None else None
        visible = [s for s in self.snaps if s.alive and self.can_see(u, s) and (sre is None or sre.search(s.name))]
        cols = op.get('columns') or ['name', 'note', 'timestamp', 'file_count', 'size']
        cols = [str(getattr(c, 'value', c)) for c in cols]
        if len(rows) != len(visible):
            self.flag('access-listing' if self.enc and len(rows) > len(visible) else 'listing-rows',
                      f'list-snapshots by u{u} printed {len(rows)} rows, {len(visible)} snapshots are visible to it', cmd='ls')
            return
        # expected rows, newest first; unreadable ones (no timestamp) sort last
        exp = sorted(visible, key=lambda s: (_ts_key(s) if self.can_read(u, s) else ''), reverse=True)
        exp_rows = []
        for s in exp:
            readable = self.can_read(u, s)
            row = {}
            for c in cols:
                if c == 'name':
                    row[c] = s.name
                elif not readable:
                    row[c] = '--'
                elif c == 'note':
                    row[c] = s.note if s.note is not None else '--'
                elif c == 'timestamp':
                    row[c] = _fmt_ts(_ts_key(s))
                elif c == 'file_count':
                    row[c] = str(len(s.files))
                elif c == 'size':
                    row[c] = _human(sum(len(v[0]) for v in s.files.values()))
            exp_rows.append([row[c].rstrip(' ') for c in cols])
        if self.enc:
            for rrow, s in zip(rows, exp):
                pass
        # rows with equal sort keys (several unreadable snapshots) may come in any order
        if sorted(rows) != sorted(exp_rows):
            leak = any(not self.can_read(u, s) for s in visible) and self.enc
            self.flag('listing-content', f'list-snapshots by u{u}: rows {rows[:3]} != expected {exp_rows[:3]}', cmd='ls')
            return
        readable_n = sum(1 for s in exp if self.can_read(u, s))
        if rows[:readable_n] != exp_rows[:readable_n]:
            self.flag('listing-order', f'list-snapshots by u{u}: order {[r[0][:8] for r in rows]} != newest first {[r[0][:8] for r in exp_rows]}', cmd='ls')

    def check_lf(self, u, stdout, op):
        rows = _parse_table(stdout, op.get('header', True))
        sre = re.compile(op['snapshot_regex']) if op.get('snapshot_regex') is not None else None
        fre = re.compile(op['file_regex']) if op.get('file_regex') is not None else None
        cols = op.get('columns') or ['snapshot_date', 'path', 'chunk_count', 'size', 'mtime']
        cols = [str(getattr(c, 'value', c)) for c in cols]
        exp = []
        for s in self.live(readable_by=u):
            if sre is not None and not sre.search(s.name):
                continue
            dec = getattr(s, 'decoded', None)
            for p, (data, mt) in s.files.items():
                if fre is not None and fre.search(p) is None:
                    continue
                row = {}
                for c in cols:
                    if c == 'snapshot_name':
                        row[c] = s.name
                    elif c == 'snapshot_date':
                        row[c] = _fmt_ts(_ts_key(s))
                    elif c == 'path':
                        row[c] = p
                    elif c == 'chunk_count':
                        row[c] = None      # checked against the decoded snapshot below
                        if dec is not None:
                            fe = next(f for f in dec['data']['files'] if f['path'] == p)
                            row[c] = str(len(fe['chunks']))
                    elif c == 'size':
                        row[c] = _human(len(data))
                    elif c == 'digest':
                        row[c] = self.refs[u].hash(data).hex()
                    elif c == 'mtime':
                        row[c] = _fmt_ns(mt)
                    elif c == 'atime':
                        row[c] = _fmt_ns(mt + 1000)
                    elif c == 'ctime':
                        row[c] = _fmt_ns(mt + 2000)
                exp.append((_ts_key(s), [None if row[c] is None else row[c].rstrip(' ') for c in cols]))
        if len(rows) != len(exp):
            foreign = len(rows) > len(exp)
            self.flag('access-listing' if self.enc and foreign else 'listing-rows',
                      f'list-files by u{u} printed {len(rows)} rows, expected {len(exp)}', cmd='lf')
            return

        exp_rows = [r for _, r in exp]
        a = sorted(([x for x in r] for r in rows))
        b = sorted(exp_rows, key=lambda r: [x or '' for x in r])
        if 'chunk_count' in cols and any(None in r for r in exp_rows):
            i = cols.index('chunk_count')
            a = sorted([x for j, x in enumerate(r) if j != i] for r in rows)
            b = sorted([x for j, x in enumerate(r) if j != i] for r in exp_rows)
        if a != b:
            self.flag('listing-content', f'list-files by u{u}: rows {a[:3]} != expected {b[:3]}', cmd='lf')
            return
        # newest snapshot first
        if 'snapshot_date' in cols:
            i = cols.index('snapshot_date')
            dates = [r[i] for r in rows]
            if dates != sorted(dates, reverse=True):
                self.flag('listing-order', f'list-files by u{u}: snapshot dates not newest first: {dates[:6]}', cmd='lf')


# ------------------------------------------------------------------ forking
class Fork:
    """A copy of the world right before the victim command."""

    def __init__(self, H):
        self.H = H
        H.W.end_all_live()          # a live process cannot be copied: long-running programs restart here
        self.state0 = H.W.state.copy()
        self.env0 = copy.deepcopy(H.W.env)
        self.snaps0 = [copy.copy(s) for s in H.snaps]
        self.orphans0 = H.orphans_possible
        self.nproc0 = H.W.nproc

    def restore(self):
        H = self.H
        H.W.end_all_live()
        H.W.state = self.state0.copy()
        H.W.env = copy.deepcopy(self.env0)
        H.W.nproc = self.nproc0
        H.snaps = [copy.copy(s) for s in self.snaps0]
        H.orphans_possible = self.orphans0
        H.viol = []



# ------------------------------------------------------------------ helpers
def _cols(columns, enum_name):
    if columns is None:
        return None
    import replicat.utils as U
    return [getattr(U, enum_name)(c) for c in columns]


def _ts_key(s):
    ts = getattr(s, 'ts', None)
    if ts is not None:
        return ts
    return str(s.at)


def _fmt_ts(ts):
    return _dt.datetime.fromisoformat(ts).isoformat(sep=' ', timespec='seconds')


def _fmt_ns(ns):
    return _dt.datetime.fromtimestamp(ns / 1e9, tz=_dt.timezone.utc).replace(tzinfo=None).isoformat(sep=' ', timespec='seconds')


def _human(n):
    """Independent re-implementation of the listing's size format (3 significant-ish digits)."""
    if n < 1000:
        d, u = 1, 'B'
    elif n < 10**6:
        d, u = 10**3, 'K'
    elif n < 10**9:
        d, u = 10**6, 'M'
    else:
        d, u = 10**9, 'G'
    return f'{round(n / d, 2):g}{u}'


def _parse_table(stdout, header):
    lines = [l for l in stdout.split('\n') if l != '']
    # init/unlock print nothing on stdout; the listing is tab separated
    if header and lines:
        lines = lines[1:]
    return [[c.rstrip(' ') for c in l.split('\t')] for l in lines]


def _tree_summary(t):
    return '{' + ', '.join(f'{k.rsplit("/", 1)[-1]!r}:{len(v[0])}B' for k, v in sorted(t.items())[:8]) + ('...' if len(t) > 8 else '') + '}'


def _op_summary(o):
    if o['op'] == 'par':
        return ['par', _op_summary(o['a']), _op_summary(o['b'])]
    if o['op'] == 'pair':
        return ['pair', o['ua'], 'restore', o['ub'], o['kb'], 'cold' if o.get('cold') else 'as-is']
    if o['op'] == 'snapshot':
        return ['snapshot', o['u'], len(o['files'])] + ([f'crash@{o["crash_at"]}'] if 'crash_at' in o else [])
    return [o['op'], o['u']] + [o[k] for k in ('pick', 'snapshot_regex', 'file_regex', 'what') if k in o]


def shrink_history(case):
    """Candidates: drop an op, drop a user (remapping), simplify settings."""
    ops = case['ops']
    for i in range(len(ops) - 1, -1, -1):
        c = copy.deepcopy(case)
        del c['ops'][i]
        yield c
    for i, o in enumerate(ops):
        if o['op'] == 'par':
            for k in ('a', 'b'):
                c = copy.deepcopy(case)
                c['ops'][i] = copy.deepcopy(o[k])
                yield c
        if o['op'] == 'snapshot' and len(o['files']) > 1:
            for p in list(o['files']):
                c = copy.deepcopy(case)
                del c['ops'][i]['files'][p]
                yield c
    if len(case['users']) > 1:
        last = len(case['users']) - 1
        if not any(_uses(o, last) for o in ops) and not any(u['parent'] == last for u in case['users']):
            c = copy.deepcopy(case)
            c['users'].pop()
            yield c
    for k, v in (('lat_kind', 'zero'), ('flavour', 'sync'), ('list_order', 'sorted'), ('decoys', None)):
        if case.get(k) != v:
            c = copy.deepcopy(case)
            c[k] = v
            yield c
    for u in range(len(case['users'])):
        if case['users'][u]['N'] > 1:
            c = copy.deepcopy(case)
            c['users'][u]['N'] = 1
            yield c


def _uses(o, u):
    if o['op'] == 'par':
        return _uses(o['a'], u) or _uses(o['b'], u)
    return o.get('u') == u or o.get('other') == u or o.get('ua') == u or o.get('ub') == u

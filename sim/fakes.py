"""FakeS3 and FakeB2: in-process services behind httpx's transport seam, written from the public
API documentation (independently of the adapters).  Request bodies are consumed chunk by chunk
and response bodies are served chunk by chunk, so faults can be placed before the first byte,
after any number of stream chunks, or after the last one (request applied, response lost)."""
import asyncio
import base64
import hashlib
import json
import urllib.parse
from xml.sax.saxutils import escape

import httpx

from . import ref_sigv4
from .install import CTX


class BudgetExceeded(BaseException):
    """An adapter call issued more requests than any bounded retry policy would."""


class Fault:
    """kind: connect | read | write | status:<code>[:<retry-after>] ; where: match on op name (or None);
    after_chunks: position inside the transfer (None = before the first byte); lost_response: apply then fail."""

    def __init__(self, kind, *, op=None, count=1, skip=0, after_chunks=None, lost_response=False, code=None):
        self.kind, self.op, self.count, self.skip = kind, op, count, skip
        self.after_chunks, self.lost_response, self.code = after_chunks, lost_response, code
        self.fired = 0

    def as_dict(self):
        return {'kind': self.kind, 'op': self.op, 'count': self.count, 'skip': self.skip, 'after_chunks': self.after_chunks,
                'lost_response': self.lost_response, 'code': self.code}

    @classmethod
    def from_dict(cls, d):
        d = dict(d)
        return cls(d.pop('kind'), **d)


class _Body(httpx.AsyncByteStream):
    def __init__(self, svc, chunks, fail_after=None):
        self.svc, self.chunks, self.fail_after = svc, chunks, fail_after

    async def __aiter__(self):
        for i, c in enumerate(self.chunks):
            if self.fail_after is not None and i >= self.fail_after:
                self.svc.count('fault:read-mid-response')
                raise httpx.ReadError('injected: connection dropped while reading the response')
            await asyncio.sleep(0)
            yield c
        if self.fail_after is not None and self.fail_after >= len(self.chunks):
            self.svc.count('fault:read-mid-response')
            raise httpx.ReadError('injected: connection dropped at the end of the response')


class _Service(httpx.AsyncBaseTransport):
    def __init__(self, *, latency=0.0, faults=None, request_budget=None, piece=7):
        self.objects = {}
        self.latency = latency
        self.faults = list(faults or [])
        self.requests = []            # (op, method, target)
        self.request_budget = request_budget
        self.budget_used = 0
        self.counters = {}
        self.piece = piece            # response body chunk size
        self.journal = []
        self.violations = []          # protocol violations observed (e.g. bad signature)

    def count(self, k):
        self.counters[k] = self.counters.get(k, 0) + 1

    def reset_budget(self):
        self.budget_used = 0

    def _fault_for(self, op):
        for f in self.faults:
            if f.op is not None and f.op != op:
                continue
            if f.skip > 0:
                f.skip -= 1
                continue
            if f.count is None or f.count > 0:
                if f.count is not None:
                    f.count -= 1
                f.fired += 1
                return f
        return None

    async def _read_body(self, request, fault):
        """Consume the request body chunk by chunk; a mid-upload fault fires after `after_chunks` chunks."""
        parts = []
        n = 0
        async for chunk in request.stream:
            if fault is not None and fault.after_chunks is not None and not fault.lost_response and n >= fault.after_chunks:
                self._raise(fault, mid=True)
            parts.append(bytes(chunk))
            n += 1
            await asyncio.sleep(0)
        if fault is not None and fault.after_chunks is not None and not fault.lost_response:
            # fewer chunks than the fault position: fail after the last byte of the request
            self._raise(fault, mid=True)
        return b''.join(parts)

    def _raise(self, fault, mid=False):
        self.count('fault:' + fault.kind + (':mid-upload' if mid else ''))
        if fault.kind == 'connect':
            raise httpx.ConnectError('injected: connection refused')
        if fault.kind == 'read':
            raise httpx.ReadError('injected: connection reset while reading')
        if fault.kind == 'write':
            raise httpx.WriteError('injected: connection reset while writing')
        if fault.kind == 'timeout':
            raise httpx.ReadTimeout('injected: timed out')
        raise httpx.ReadError('injected: connection dropped')

    def _status_response(self, fault, request=None):
        parts = fault.kind.split(':')
        code = int(parts[1])
        headers = {}
        if 300 <= code < 400 and request is not None:
            # a gateway bouncing the request to another spelling of the resource / to another host
            raw = request.url.raw_path.decode('latin-1')
            sep = '&' if '?' in raw else '?'
            other = parts[2] if len(parts) > 2 else ''
            host = request.headers.get('host', 'unknown')
            headers['location'] = (f'{request.url.scheme}://{other}{raw}' if other else f'{request.url.scheme}://{host}{raw}{sep}redirected=1')
            parts = parts[:2]
        if len(parts) > 2:
            headers['retry-after'] = parts[2]
        body = self.error_body(code, fault.code)
        self.count(f'fault:status:{code}')
        return self.respond(code, body, headers)

    def respond(self, status, body=b'', headers=None, fail_after=None, head=False):
        headers = dict(headers or {})
        headers.setdefault('content-length', str(len(body)))
        if head:
            chunks = []
        else:
            piece = max(self.piece, len(body) // 24)
            chunks = [body[i:i + piece] for i in range(0, len(body), piece)]
        return httpx.Response(status, headers=headers, stream=_Body(self, chunks, fail_after))

    async def handle_async_request(self, request):
        s = CTX.s
        self.budget_used += 1
        if self.request_budget is not None and self.budget_used > self.request_budget:
            raise BudgetExceeded(f'{self.budget_used} requests for one adapter call')
        op = self.classify(request)
        self.requests.append((op, request.method, request.url.raw_path.decode('latin-1')))
        if s is not None:
            s.log('http', op, request.method)
        if self.latency:
            await asyncio.sleep(self.latency * (CTX.env.latency.random() if CTX.env is not None else 1.0))
        else:
            await asyncio.sleep(0)
        fault = self._fault_for(op)
        is_upload = op in ('put', 'upload')
        if fault is not None and fault.after_chunks is not None and not is_upload and not fault.lost_response and request.method != 'GET':
            fault.after_chunks = None        # no body in either direction: plain failure before the request is served
        if fault is not None and fault.after_chunks is None and not fault.lost_response:
            if fault.kind.startswith('status:'):
                # the service answers without applying the request; the body is still drained
                await self._read_body(request, None)
                return self._status_response(fault, request)
            if fault.kind == 'okerror':
                # "200 OK" whose body is an error document (S3 does this under load): nothing was served
                await self._read_body(request, None)
                self.count('fault:okerror')
                return self.respond(200, self.error_body(503), {'content-type': 'application/xml'})
            self._raise(fault)
        body = await self._read_body(request, fault if is_upload else None)
        resp = await self.serve(op, request, body)
        if fault is not None and fault.lost_response:
            if fault.kind.startswith('status:'):
                return self._status_response(fault, request)
            self._raise(fault)
        if fault is not None and fault.after_chunks is not None and request.method in ('GET',):
            # mid-download fault: cut the response body after some chunks
            resp.stream.fail_after = fault.after_chunks
        return resp


# ----------------------------------------------------------------------------- S3
class FakeS3(_Service):
    def __init__(self, *, bucket, key_id, secret, region, host, page_size=1000, verify=True, token_style='urlsafe', **kw):
        super().__init__(**kw)
        self.bucket, self.key_id, self.secret, self.region, self.host = bucket, key_id, secret, region, host
        self.page_size = page_size
        self.verify = verify
        self.signed_ok = 0
        self.token_style = token_style
        self._tokens = {}

    def error_body(self, code, name=None):
        name = name or {403: 'AccessDenied', 404: 'NoSuchKey', 500: 'InternalError', 503: 'SlowDown', 429: 'TooManyRequests'}.get(code, 'Error')
        return f'<?xml version="1.0" encoding="UTF-8"?><Error><Code>{name}</Code><Message>injected</Message></Error>'.encode()

    def _split(self, request):
        raw = request.url.raw_path
        path, _, query = raw.partition(b'?')
        return path, query

    def classify(self, request):
        path, query = self._split(request)
        segs = path.split(b'/')
        if len(segs) <= 2 or (len(segs) == 3 and segs[2] == b''):
            return 'list' if request.method == 'GET' else 'bucket'
        return {'PUT': 'put', 'GET': 'get', 'HEAD': 'head', 'DELETE': 'delete'}.get(request.method, 'other')

    async def serve(self, op, request, body):
        path, query = self._split(request)
        if self.verify:
            try:
                now = CTX.env.utcnow() if CTX.env is not None else None
                ref_sigv4.verify(method=request.method, raw_target=request.url.raw_path, headers=request.headers.raw, body=body,
                                 secret_lookup=lambda k: self.secret if k == self.key_id else None, region=self.region, now=now)
                self.signed_ok += 1
            except ref_sigv4.SigError as e:
                self.violations.append({'op': op, 'method': request.method, 'target': request.url.raw_path.decode('latin-1'), 'error': str(e)})
                return self.respond(403, self.error_body(403, 'SignatureDoesNotMatch'))
            host = request.headers.get('host', '')
            if host.lower() != self.host.lower():
                self.violations.append({'op': op, 'method': request.method, 'target': '', 'error': f'Host header {host!r} is not the endpoint {self.host!r}'})
        segs = path.split(b'/')
        try:
            bucket = ref_sigv4.pct_decode(segs[1]).decode()
        except (IndexError, ref_sigv4.SigError, UnicodeDecodeError):
            return self.respond(400, self.error_body(400, 'InvalidURI'))
        if bucket != self.bucket:
            return self.respond(404, self.error_body(404, 'NoSuchBucket'))
        if op == 'list':
            return self._list(query)
        try:
            key = ref_sigv4.pct_decode(b'/'.join(segs[2:])).decode('utf-8')
        except (ref_sigv4.SigError, UnicodeDecodeError):
            return self.respond(400, self.error_body(400, 'InvalidURI'))
        if op == 'put':
            self.objects[key] = body
            self.journal.append(('put', key, len(body)))
            return self.respond(200, b'', {'etag': '"' + hashlib.md5(body).hexdigest() + '"'})
        if op in ('get', 'head'):
            if key not in self.objects:
                return self.respond(404, self.error_body(404), head=(op == 'head'))
            data = self.objects[key]
            return self.respond(200, data, {'content-length': str(len(data))}, head=(op == 'head'))
        if op == 'delete':
            self.objects.pop(key, None)
            self.journal.append(('delete', key, None))
            return self.respond(204, b'')
        return self.respond(405, self.error_body(405, 'MethodNotAllowed'))

    def _list(self, query):
        params = {}
        for part in query.split(b'&'):
            if part:
                k, _, v = part.partition(b'=')
                params[ref_sigv4.pct_decode(k, True).decode()] = ref_sigv4.pct_decode(v, True).decode('utf-8', 'replace')
        if params.get('list-type') != '2':
            return self.respond(400, self.error_body(400, 'InvalidArgument'))
        prefix = params.get('prefix', '')
        token = params.get('continuation-token')
        keys = sorted((k for k in self.objects if k.startswith(prefix)), key=lambda k: k.encode('utf-8'))
        start = 0
        if token is not None:
            if token not in self._tokens:
                self.violations.append({'op': 'list', 'error': f'continuation token {token!r} is not one the service issued (issued: {sorted(self._tokens)[:3]})'})
                return self.respond(400, self.error_body(400, 'InvalidArgument'))
            after = self._tokens[token]
            start = len([k for k in keys if k.encode('utf-8') <= after.encode('utf-8')])
        page = keys[start:start + self.page_size]
        truncated = start + self.page_size < len(keys)
        self.count('list-page')
        x = ['<?xml version="1.0" encoding="UTF-8"?>', '<ListBucketResult xmlns="http://s3.amazonaws.com/doc/2006-03-01/">',
             f'<Name>{escape(self.bucket)}</Name>', f'<Prefix>{escape(prefix)}</Prefix>', f'<KeyCount>{len(page)}</KeyCount>',
             f'<MaxKeys>{self.page_size}</MaxKeys>', f'<IsTruncated>{"true" if truncated else "false"}</IsTruncated>']
        for k in page:
            x.append(f'<Contents><Key>{escape(k)}</Key><Size>{len(self.objects[k])}</Size><StorageClass>STANDARD</StorageClass></Contents>')
        if truncated:
            # opaque tokens may contain any printable character
            raw = hashlib.sha256(page[-1].encode('utf-8')).digest()[:12]
            if self.token_style == 'urlsafe':
                tok = base64.urlsafe_b64encode(raw).decode()
            elif self.token_style == 'b64std':
                tok = base64.standard_b64encode(raw + b'\xfb\xff').decode() + '=='
            else:
                tok = 'tok +/=&%?#~*' + base64.standard_b64encode(raw).decode() + ' é日'
            self._tokens[tok] = page[-1]
            x.append(f'<NextContinuationToken>{escape(tok)}</NextContinuationToken>')
        x.append('</ListBucketResult>')
        return self.respond(200, ''.join(x).encode('utf-8'), {'content-type': 'application/xml'})


# ----------------------------------------------------------------------------- B2
class FakeB2(_Service):
    API = 'https://api.fake-b2.test'
    DOWNLOAD = 'https://f000.fake-b2.test'
    UPLOAD = 'https://pod-000.fake-b2.test'

    def __init__(self, *, bucket_name, bucket_id, key_id, application_key, restricted=False, page_size=1000, **kw):
        super().__init__(**kw)
        self.bucket_name, self.bucket_id = bucket_name, bucket_id
        self.key_id, self.application_key = key_id, application_key
        self.restricted = restricted
        self.page_size = page_size
        self.epoch = 0                  # authorisation tokens of older epochs are expired
        self.tokens = set()
        self.upload_tokens = {}         # token -> usable
        self.ntok = 0
        self.versions = {}              # name -> list of ('upload', bytes) | ('hide',)
        self.account_id = 'acct-' + key_id
        self.auth_count = 0
        self.expire_after = None        # all authorisation tokens expire once, after this many API requests
        self.authorize_latency = 0.0
        self._api_requests = 0

    @property
    def objects(self):
        return {n: v[-1][1] for n, v in self.versions.items() if v and v[-1][0] == 'upload'}

    @objects.setter
    def objects(self, value):
        pass

    def expire_tokens(self):
        self.epoch += 1
        self.tokens = set()

    def error_body(self, code, name=None):
        name = name or {401: 'expired_auth_token', 403: 'cap_exceeded', 404: 'not_found', 429: 'too_many_requests', 500: 'internal_error',
                        503: 'service_unavailable', 400: 'bad_request'}.get(code, 'error')
        return json.dumps({'status': code, 'code': name, 'message': 'injected'}).encode()

    def classify(self, request):
        path = request.url.path
        if path.endswith('/b2_authorize_account'):
            return 'authorize'
        if path.endswith('/b2_list_buckets'):
            return 'list_buckets'
        if path.endswith('/b2_get_upload_url'):
            return 'get_upload_url'
        if path.endswith('/b2_list_file_names'):
            return 'list_file_names'
        if path.endswith('/b2_hide_file'):
            return 'hide_file'
        if path.endswith('/b2_delete_file_version'):
            return 'delete_file_version'
        if path.startswith('/b2api/v2/b2_upload_file/'):
            return 'upload'
        if path.startswith('/file/'):
            return 'head' if request.method == 'HEAD' else 'download'
        return 'other'

    def _json(self, status, obj):
        return self.respond(status, json.dumps(obj).encode(), {'content-type': 'application/json'})

    def _auth_ok(self, request):
        tok = request.headers.get('authorization', '')
        return tok in self.tokens

    async def serve(self, op, request, body):
        if op == 'authorize':
            expect = 'Basic ' + base64.b64encode(f'{self.key_id}:{self.application_key}'.encode()).decode()
            if request.headers.get('authorization') != expect:
                return self._json(401, {'status': 401, 'code': 'bad_auth_token', 'message': 'bad credentials'})
            self.ntok += 1
            self.auth_count += 1
            tok = f'auth-{self.epoch}-{self.ntok}'
            self.tokens.add(tok)
            allowed = {'bucketId': self.bucket_id if self.restricted else None, 'bucketName': self.bucket_name if self.restricted else None,
                       'capabilities': ['listBuckets', 'listFiles', 'readFiles', 'writeFiles', 'deleteFiles'], 'namePrefix': None}
            return self._json(200, {'accountId': self.account_id, 'authorizationToken': tok, 'apiUrl': self.API, 'downloadUrl': self.DOWNLOAD,
                                    'allowed': allowed, 'recommendedPartSize': 100000000, 'absoluteMinimumPartSize': 5000000})
        if op == 'upload':
            tok = request.headers.get('authorization', '')
            if not self.upload_tokens.get(tok):
                return self._json(401, {'status': 401, 'code': 'expired_auth_token', 'message': 'upload token not valid'})
            try:
                name = urllib.parse.unquote(request.headers['x-bz-file-name'], errors='strict')
            except (KeyError, UnicodeDecodeError):
                return self._json(400, {'status': 400, 'code': 'bad_request', 'message': 'bad file name'})
            if 'content-length' in request.headers and int(request.headers['content-length']) != len(body):
                self.violations.append({'op': op, 'error': f'content-length {request.headers["content-length"]} != {len(body)} bytes sent'})
                return self._json(400, {'status': 400, 'code': 'bad_request', 'message': 'length mismatch'})
            sha1 = request.headers.get('x-bz-content-sha1', '')
            if sha1 not in ('do_not_verify',) and sha1 != hashlib.sha1(body).hexdigest():
                return self._json(400, {'status': 400, 'code': 'bad_request', 'message': 'sha1 mismatch'})
            self.nfid = getattr(self, 'nfid', 0) + 1
            fid = f'4_z{self.nfid:08d}'
            self.versions.setdefault(name, []).append(('upload', body, fid))
            self.journal.append(('put', name, len(body)))
            return self._json(200, {'fileName': name, 'fileId': fid, 'contentLength': len(body), 'action': 'upload'})
        if not self._auth_ok(request):
            self.count('unauthorized')
            return self._json(401, {'status': 401, 'code': 'expired_auth_token', 'message': 'token expired'})
        if op in ('download', 'head'):
            raw = request.url.raw_path.partition(b'?')[0]
            segs = raw.split(b'/')
            try:
                bucket = ref_sigv4.pct_decode(segs[2]).decode()
                name = ref_sigv4.pct_decode(b'/'.join(segs[3:])).decode('utf-8')
            except Exception:  # noqa
                return self._json(400, {'status': 400, 'code': 'bad_request', 'message': 'bad url'})
            data = self.objects.get(name) if bucket == self.bucket_name else None
            if data is None:
                return self.respond(404, self.error_body(404), head=(op == 'head'))
            return self.respond(200, data, {'content-length': str(len(data))}, head=(op == 'head'))
        try:
            req = json.loads(body or b'{}')
        except ValueError:
            return self._json(400, {'status': 400, 'code': 'bad_request', 'message': 'bad json'})
        if op == 'list_buckets':
            return self._json(200, {'buckets': [{'accountId': self.account_id, 'bucketId': 'other-id', 'bucketName': 'some-other-bucket'},
                                                {'accountId': self.account_id, 'bucketId': self.bucket_id, 'bucketName': self.bucket_name}]})
        if op == 'delete_file_version':
            # removes exactly one stored version; an older version of the name becomes the current one
            name, fid = req.get('fileName'), req.get('fileId')
            v = self.versions.get(name) or []
            for i, ver in enumerate(v):
                if ver[2] == fid:
                    was_current = (i == len(v) - 1)
                    del v[i]
                    if was_current:
                        self.journal.append(('delete-version', name, None))
                    return self._json(200, {'fileName': name, 'fileId': fid})
            return self._json(400, {'status': 400, 'code': 'file_not_present', 'message': 'file not present'})
        if req.get('bucketId') != self.bucket_id:
            return self._json(400, {'status': 400, 'code': 'bad_bucket_id', 'message': 'no such bucket'})
        if op == 'get_upload_url':
            self.ntok += 1
            tok = f'upload-{self.ntok}'
            self.upload_tokens[tok] = True
            return self._json(200, {'bucketId': self.bucket_id, 'uploadUrl': f'{self.UPLOAD}/b2api/v2/b2_upload_file/{self.bucket_id}/{tok}',
                                    'authorizationToken': tok})
        if op == 'list_file_names':
            prefix = req.get('prefix') or ''
            start = req.get('startFileName')
            maxn = min(int(req.get('maxFileCount', 100)), self.page_size)
            names = sorted((n for n in self.objects if n.startswith(prefix)), key=lambda n: n.encode('utf-8'))
            if start is not None:
                names = [n for n in names if n.encode('utf-8') >= start.encode('utf-8')]
            page, rest = names[:maxn], names[maxn:]
            self.count('list-page')
            return self._json(200, {'files': [{'fileName': n, 'fileId': self.versions[n][-1][2], 'action': 'upload',
                                               'contentLength': len(self.objects[n])} for n in page],
                                    'nextFileName': rest[0] if rest else None})
        if op == 'hide_file':
            name = req.get('fileName')
            v = self.versions.get(name)
            if not v:
                return self._json(400, {'status': 400, 'code': 'no_such_file', 'message': 'no such file'})
            if v[-1][0] == 'hide':
                return self._json(400, {'status': 400, 'code': 'already_hidden', 'message': 'already hidden'})
            self.nfid = getattr(self, 'nfid', 0) + 1
            v.append(('hide', None, f'4_z{self.nfid:08d}'))
            self.journal.append(('delete', name, None))
            return self._json(200, {'fileName': name, 'fileId': v[-1][2], 'action': 'hide'})
        return self._json(400, {'status': 400, 'code': 'bad_request', 'message': 'unknown call'})

    async def handle_async_request(self, request):
        # a failed upload invalidates its upload URL (documented: request a new one)
        resp = None
        op = self.classify(request)
        if op == 'authorize' and self.authorize_latency:
            await asyncio.sleep(self.authorize_latency)
        elif op != 'authorize':
            self._api_requests += 1
            if self.expire_after is not None and self._api_requests == self.expire_after:
                self.expire_tokens()
                self.count('tokens-expired')
        try:
            resp = await super().handle_async_request(request)
            return resp
        finally:
            if self.classify(request) == 'upload':
                tok = request.headers.get('authorization', '')
                if resp is None or resp.status_code >= 400:
                    if tok in self.upload_tokens:
                        self.upload_tokens[tok] = False


def attach(backend, service):
    """Replace the adapter's HTTP client by one that talks to the fake service (same hooks)."""
    hooks = backend._client.event_hooks
    backend._client = httpx.AsyncClient(transport=service, event_hooks=hooks, timeout=None)
    return backend


def make_s3(service, scheme='https'):
    import replicat.backends.s3c as S3C
    b = S3C.S3Compatible(service.bucket, key_id=service.key_id, access_key=service.secret, region=service.region,
                         host=service.host, scheme=scheme)
    return attach(b, service)


def make_b2(service, by_id=False):
    import replicat.backends.b2 as B2
    b = B2.B2(service.bucket_id if by_id else service.bucket_name, key_id=service.key_id, application_key=service.application_key)
    attach(b, service)
    return b

"""Seams: rebinds module attributes of replicat (and backoff) so that threads, locks,
queues, executors, clocks, randomness and line-level pre-emption are owned by the
simulator.  Installed once per OS process; `CTX` carries the per-run objects."""
import asyncio
import collections
import datetime as _dt
import queue as _queue
import sys
import types

from . import core
from .core import substream


class Ctx:
    s = None            # current Sched
    env = None          # current Env
    installed = False
    hot_names = frozenset()
    hot_substr = ()          # ... or any function whose name contains one of these
    hot_hold_p = 0.0         # probability that a task entering a hot line is held back until OTHER tasks have executed
                             # a few hot lines (or a simulated time-out passes): lines racing on one resource up against each other
    fs = None
    chunker_call_limit = None
    chunker_calls = 0
    tool = None
    codes = None
    probes = None


CTX = Ctx()
CTX.probes = collections.Counter()


class Env:
    """State of the simulated world that outlives one simulated process: random streams,
    wall clock, counters.  A function of the run seed only."""

    def __init__(self, seed, *, epoch=None):
        self.seed = seed
        self.urandom = substream(seed, 'urandom')
        self.jitter = substream(seed, 'jitter')
        self.memory = substream(seed, 'memory')
        self.fsorder = substream(seed, 'fs-order')
        self.latency = substream(seed, 'latency')
        self.fault = substream(seed, 'fault')
        r = substream(seed, 'epoch')
        if epoch is None:
            # anywhere in 2001..2037, any time of day
            epoch = _dt.datetime(2001, 1, 1) + _dt.timedelta(
                seconds=r.randrange(0, 36 * 365 * 86400), microseconds=r.randrange(0, 10**6))
        self.epoch = epoch
        self.now = 0.0          # virtual seconds since epoch (carried across processes)
        self.clock_offset = 0.0  # injected clock jumps
        self.tmp_counter = 0
        self.urandom_calls = 0
        self.urandom_log = None  # optional list of (n, bytes)
        self.fixed_utcnow = None
        self.clock_tick = 0.0    # wall-clock time that passes between two consecutive clock reads
        self.procs = 0
        # transfer block size of the repository layer (128 000 as shipped, or small enough for the
        # objects of a simulated run to take several blocks)
        self.block_size = substream(seed, 'block').choice([128_000, 128_000, 128_000, 1, 5, 64, 1000])

    def utcnow(self):
        if self.fixed_utcnow is not None:
            return self.fixed_utcnow
        now = CTX.s.now if CTX.s is not None else self.now
        self.clock_offset += self.clock_tick
        return self.epoch + _dt.timedelta(seconds=now + self.clock_offset)


def _s():
    s = CTX.s
    if s is None:
        raise core.HarnessError('simulator primitive used outside a simulated run')
    return s


class SimDateTime(_dt.datetime):
    @classmethod
    def utcnow(cls):
        if CTX.env is None:
            return _dt.datetime.utcnow()
        d = CTX.env.utcnow()
        return cls(d.year, d.month, d.day, d.hour, d.minute, d.second, d.microsecond)

    @classmethod
    def now(cls, tz=None):
        d = cls.utcnow()
        return d if tz is None else d.replace(tzinfo=_dt.timezone.utc).astimezone(tz)


import pathlib as _pathlib


class SimRepoPath(type(_pathlib.Path())):
    """pathlib.Path as the repository layer sees it: write_bytes() is what it is in the standard library -
    open for writing (the file is empty from that instant), then write - with a scheduling point in
    between, so another thread or client can observe the truncated file; reads are scheduling points too."""

    def write_bytes(self, data):
        view = memoryview(data)
        with open(self, mode='wb') as f:
            s = CTX.s
            if s is not None:
                s.yield_()
            return f.write(view)

    def read_bytes(self):
        s = CTX.s
        if s is not None:
            s.yield_()
        with open(self, mode='rb') as f:
            return f.read()


class _ModProxy:
    """Attribute proxy over a module with a few names overridden."""

    def __init__(self, mod, **over):
        self.__dict__['_mod'] = mod
        self.__dict__['_over'] = over

    def __getattr__(self, k):
        o = self.__dict__['_over']
        if k in o:
            return o[k]
        return getattr(self.__dict__['_mod'], k)


def sim_urandom(n):
    env = CTX.env
    env.urandom_calls += 1
    b = env.urandom.randbytes(n)
    if env.urandom_log is not None:
        env.urandom_log.append(b)
    return b


def _det_stat(st):
    # ctime (and, with relatime, atime) are stamped by the kernel with the real clock;
    # they end up inside the snapshot body, hence in object names and set orders.
    m = st.st_mtime_ns
    return types.SimpleNamespace(st_mode=st.st_mode, st_uid=st.st_uid, st_gid=st.st_gid, st_size=st.st_size,
                                 st_atime_ns=m + 1_000, st_mtime_ns=m, st_ctime_ns=m + 2_000,
                                 st_atime=(m + 1_000) / 1e9, st_mtime=m / 1e9, st_ctime=(m + 2_000) / 1e9,
                                 st_ino=st.st_ino, st_dev=st.st_dev, st_nlink=st.st_nlink)


class _Jitter:
    @staticmethod
    def random():
        return CTX.env.jitter.random()

    @staticmethod
    def uniform(a, b):
        return CTX.env.jitter.uniform(a, b)


class ChunkerNoProgress(Exception):
    pass


class SimChunkerNative:
    """Wraps the compiled chunker so that the <=3 bytes it may read past the buffer come
    from the seeded `memory` stream instead of the allocator (replay determinism)."""

    def __init__(self, min_length, max_length, key):
        import _replicat_adapters as native
        self._c = native._real_gclmulchunker(min_length, max_length, key)
        self.min_length = self._c.min_length
        self.max_length = self._c.max_length

    def next_cut(self, buffer, final=False):
        lim = CTX.chunker_call_limit
        if lim is not None:
            CTX.chunker_calls += 1
            if CTX.chunker_calls > lim:
                raise ChunkerNoProgress(f'{CTX.chunker_calls} next_cut calls')
        if len(buffer) < self.max_length + 8:
            tail = CTX.env.memory.randbytes(8) if CTX.env is not None else bytes(8)
            return self._c._verif_next_cut_arena(bytes(buffer), final, tail)
        return self._c.next_cut(buffer, final)


_SRC_PREFIX = None
_EXTRA_FILES = set()      # library files whose functions are explicitly listed as pre-emption points


def _collect_codes(fn_or_code, out):
    global _SRC_PREFIX
    c = getattr(fn_or_code, '__code__', fn_or_code)
    if _SRC_PREFIX is None:
        from .native import repo_src
        _SRC_PREFIX = str(repo_src().resolve() / 'replicat') + '/'
    if not isinstance(c, types.CodeType) or c in out:
        return
    if not str(c.co_filename).startswith(_SRC_PREFIX) and c.co_filename not in _EXTRA_FILES:
        return      # e.g. Enum.__new__ reached through a class defined in replicat: library code is never pre-empted
    out.append(c)
    for k in c.co_consts:
        if isinstance(k, types.CodeType):
            _collect_codes(k, out)


def _on_line(code, line):
    s = CTX.s
    if s is None:
        return
    if s.aborting:
        if s.cur() is not None and s.cur() is not s.tasks[0]:
            raise core.SimAbort
        return
    if s.events is not None and _TRACE_LINES:
        s.events.append(f'line {code.co_name}:{line} {s.cur().name if s.cur() else None}')
    hot = CTX.hot_names
    if (hot or CTX.hot_substr) and s.hot_p and s.cur() is not None and (
            code.co_name in hot or any(x in code.co_name for x in CTX.hot_substr)):
        # focus: pre-empt much more often inside the functions the property is about
        s.hot_counter = getattr(s, 'hot_counter', 0) + 1
        r = s.rng.random()
        if r < CTX.hot_hold_p and not getattr(s.cur(), 'held', False) and len(s.tasks) > 1:
            cur = s.cur()
            cur.held = True
            target = s.hot_counter + s.rng.randrange(1, 12)
            s.counters['hot_hold'] += 1
            try:
                s.block_until(lambda: s.hot_counter >= target, timeout=s.rng.choice([0.001, 0.05, 1.0, 20.0]), what='hot-hold')
            finally:
                cur.held = False
        elif r < s.hot_p:
            s.preemptions += 1
            s.yield_()
        return
    if s.preempt_p and s.cur() is not None:
        s.maybe_preempt()


import os as _os_env
_TRACE_LINES = bool(_os_env.environ.get('VERIF_TRACE_LINES'))
_SNAPSHOT_VARIANTS = {}
_orig_snapshot_code = None


def set_snapshot_knobs(piece=None, queue_timeout=None):
    """Vary the default arguments of the nested functions of Repository.snapshot
    (read-piece size of _stream_files, queue poll time-out) without editing /repo."""
    import replicat.repository as R
    global _orig_snapshot_code
    fn = R.Repository.snapshot
    if _orig_snapshot_code is None:
        _orig_snapshot_code = fn.__code__
    key = (piece, queue_timeout)
    if key == (None, None):
        fn.__code__ = _orig_snapshot_code
        return True
    code = _SNAPSHOT_VARIANTS.get(key)
    if code is None:
        consts = list(_orig_snapshot_code.co_consts)
        found = 0
        for i, k in enumerate(consts):
            if k == (16_777_216,) and piece is not None:
                consts[i] = (piece,)
                found += 1
            elif k == (0.025,) and queue_timeout is not None:
                consts[i] = (queue_timeout,)
                found += 1
        if found != (piece is not None) + (queue_timeout is not None):
            return False
        code = _orig_snapshot_code.replace(co_consts=tuple(consts))
        _SNAPSHOT_VARIANTS[key] = code
        if CTX.tool is not None:
            sys.monitoring.set_local_events(CTX.tool, code, sys.monitoring.events.LINE)
    fn.__code__ = code
    return True


def install_once():
    if CTX.installed:
        return
    import replicat.repository as R
    import replicat.utils as U
    import replicat.utils.adapters as A
    import replicat.backends.s3c as S3C
    import backoff._jitter as BJ
    import backoff._sync as BS
    import _replicat_adapters as native

    # threads / locks / queues / executors
    thr = types.SimpleNamespace(Lock=lambda: core.SimLock(_s()), Event=lambda: core.SimEvent(_s()))
    R.threading = thr
    U.threading = thr
    U._sync_auth_glock = _LazyGlobalLock()
    R.queue = types.SimpleNamespace(Queue=lambda maxsize=0: core.SimQueue(_s(), maxsize),
                                    Full=_queue.Full, Empty=_queue.Empty)
    R.ThreadPoolExecutor = lambda max_workers=None, thread_name_prefix='': core.SimExecutor(
        _s(), max_workers, thread_name_prefix)
    import concurrent.futures as _cf
    R.concurrent = _ModProxy(__import__('concurrent'), futures=_ModProxy(
        _cf, as_completed=lambda fs, timeout=None: core.sim_as_completed(_s())(fs, timeout),
        wait=lambda fs, timeout=None, return_when='ALL_COMPLETED': core.sim_wait(_s())(fs, timeout, return_when),
        ThreadPoolExecutor=lambda max_workers=None, thread_name_prefix='': core.SimExecutor(_s(), max_workers, thread_name_prefix)))
    R.asyncio = _ModProxy(asyncio, run_coroutine_threadsafe=lambda coro, loop: core.sim_run_coroutine_threadsafe(
        _s())(coro, loop))
    # clocks
    simtime = types.SimpleNamespace(perf_counter=lambda: _s().now, sleep=lambda d: _s().sleep(d),
                                    monotonic=lambda: _s().now, time=lambda: _s().now)
    U.time = simtime
    BS.time = simtime
    R.datetime = SimDateTime
    S3C.datetime = SimDateTime
    R.Path = SimRepoPath
    # backoff measures max_time with datetime.datetime.now(): the simulated wall clock, like every other clock
    import backoff._async as BA
    BA.datetime = _ModProxy(_dt, datetime=SimDateTime)
    BS.datetime = _ModProxy(_dt, datetime=SimDateTime)
    # randomness
    import os as _os
    A.os = _ModProxy(_os, urandom=sim_urandom)
    R.os = _ModProxy(_os, stat=lambda *a, **k: _det_stat(_os.stat(*a, **k)),
                     fstat=lambda fd: _det_stat(_os.fstat(fd)))
    BJ.random = _Jitter
    # chunker: adjacent memory becomes a seeded environment choice
    if not hasattr(native, '_real_gclmulchunker'):
        native._real_gclmulchunker = native._gclmulchunker
        native._gclmulchunker = SimChunkerNative

    # line-level pre-emption
    mon = sys.monitoring
    tool = None
    for tid in (3, 4, 2, 1):
        try:
            mon.use_tool_id(tid, 'replicat-verif')
            tool = tid
            break
        except ValueError:
            continue
    CTX.tool = tool
    codes = []
    import replicat.backends.local as L
    import replicat.backends.b2 as B2
    targets = [R.Repository.snapshot, R.Repository.restore, R.Repository._write_file_part,
               R.Repository._load_snapshots, R.Repository._download_snapshot_threadsafe,
               R.Repository.delete_snapshots, R.Repository.clean,
               R.Repository._acquire_slot, R.Repository._acquire_slot_threadsafe,
               R.Repository._get_cached, R.Repository._store_cached, R.Repository._delete_cached,
               U.requires_auth, U.RateLimitedIO.pause_reads, U.RateLimitedIO.pause_writes,
               U._RateLimitedFileWrapper.read, U._RateLimitedFileWrapper.write,
               A.gclmulchunker.__call__]
    for name in ('_exists', '_download', '_upload_data', '_delete', '_clean', '_close'):
        targets.append(getattr(R.Repository, name))
        targets.append(getattr(R.Repository, name + '_threadsafe'))
    for name in ('exists', 'upload', 'upload_stream', 'download', 'download_stream', 'list_files',
                 'delete', '_destination_temp', 'clean'):
        f = getattr(L.Local, name)
        targets.append(getattr(f, '__wrapped__', f))
    # the connection-slot queue is an asyncio.PriorityQueue shared between the loop and worker threads:
    # its (non thread-safe) methods are pre-emption points too
    import asyncio.queues as _aq
    _EXTRA_FILES.add(_aq.Queue.get_nowait.__code__.co_filename)
    for name in ('get_nowait', 'put_nowait', 'get', 'put', 'empty', 'full', 'qsize', '_wakeup_next'):
        targets.append(getattr(_aq.Queue, name))
    for name in ('_get', '_put'):
        targets.append(getattr(_aq.PriorityQueue, name))
    for fn in targets:
        _collect_codes(fn, codes)
    # ... and every other function / method defined in those modules (a change may add a race anywhere)
    import replicat.backends.s3c as _S3C
    for mod in (R, U, A, L, B2, _S3C):
        for obj in list(vars(mod).values()):
            if isinstance(obj, types.FunctionType) and obj.__module__ == mod.__name__:
                _collect_codes(obj, codes)
            elif isinstance(obj, type) and obj.__module__ == mod.__name__:
                for m in vars(obj).values():
                    m = getattr(m, '__func__', m)
                    m = getattr(m, 'fget', m) if isinstance(m, property) else m
                    while hasattr(m, '__wrapped__'):
                        _collect_codes(m, codes)
                        m = m.__wrapped__
                    if isinstance(m, types.FunctionType):
                        _collect_codes(m, codes)
    CTX.codes = codes
    if tool is not None:
        mon.register_callback(tool, mon.events.LINE, _on_line)
        for c in codes:
            mon.set_local_events(tool, c, mon.events.LINE)
    CTX.installed = True
    from . import fsseam
    fsseam.install_fs_seam()


class _LazyGlobalLock:
    """Module-global lock of replicat.utils; one SimLock per simulated process."""

    def _lock(self):
        s = _s()
        lk = getattr(s, '_global_auth_lock', None)
        if lk is None:
            lk = s._global_auth_lock = core.SimLock(s)
        return lk

    def __enter__(self):
        return self._lock().__enter__()

    def __exit__(self, *a):
        return self._lock().__exit__(*a)

    def acquire(self, *a, **k):
        return self._lock().acquire(*a, **k)

    def release(self):
        return self._lock().release()


def begin(sched, env):
    import replicat.utils as U
    import weakref
    install_once()
    CTX.s = sched
    CTX.env = env
    import replicat.repository as R
    R.DEFAULT_STREAM_CHUNK_SIZE = getattr(env, 'block_size', 128_000)
    U._async_auth_glock = asyncio.Lock()
    U._async_auth_locks = weakref.WeakKeyDictionary()
    U._sync_auth_locks = weakref.WeakKeyDictionary()


def end():
    CTX.s = None

"""World = one simulated universe: environment streams, durable store, scratch directory,
and helpers that run each replicat command as a fresh simulated process."""
from pathlib import Path

from . import gen, install, store, world
from .core import substream


class _FormatAndDrop(__import__('logging').Handler):
    def emit(self, record):
        try:
            self.format(record)
        except Exception:  # noqa
            self.handleError(record)

    def handleError(self, record):
        raise


def _debug_logging_on():
    import logging
    lg = logging.getLogger('replicat')
    saved = (lg.level, lg.propagate, list(lg.handlers))
    h = _FormatAndDrop()
    lg.addHandler(h)
    lg.setLevel(logging.DEBUG)
    lg.propagate = False
    return saved + (h,)


def _debug_logging_off(saved):
    import logging
    lg = logging.getLogger('replicat')
    lg.removeHandler(saved[3])
    lg.setLevel(saved[0])
    lg.propagate = saved[1]


def debug_logging_active():
    import logging
    return logging.getLogger('replicat').isEnabledFor(logging.DEBUG)


class World:
    def __init__(self, seed, check, *, flavour='sync', lat_kind='uniform', lat=0.01, list_order='sorted',
                 scratch=True):
        self.seed = seed
        self.env = install.Env(seed)
        self.dir = world.scratch_dir(check, seed) if scratch else None
        self.state = store.StoreState()
        self.flavour = flavour
        self.lat_kind, self.lat = lat_kind, lat
        self.list_order = list_order
        self.nproc = 0
        self.last_backend = None
        self.fired = {}
        self.sim_steps = 0
        self.sim_s = 0.0
        self.digests = []
        self.switches = 0
        self.make_backend_override = None
        self.after_run = None
        self.live = {}              # client name -> live process (Proc, repo, backend)
        self.live_renew = None      # hook: the adapter object of a live process starts its next command
        self.live_shared = False    # one program serves every user through ONE Repository object (unlock() switches)
        # a fifth of the universes run with replicat's debug logging switched on (-vv, log-level = "debug", or a host
        # program's logging configuration): every record is formatted and thrown away
        self._logging_saved = None
        if substream(seed, 'debug-logging').random() < 0.2:
            self._logging_saved = _debug_logging_on()

    def end_all_live(self):
        for name in sorted(self.live):
            self.live[name][0].close()
        self.live = {}

    def close(self):
        self.end_all_live()
        if self._logging_saved is not None:
            _debug_logging_off(self._logging_saved)
            self._logging_saved = None
        if self.dir is not None:
            world.remove_scratch(self.dir)

    # ---- backend
    def profile(self, **kw):
        self.nproc += 1
        kw.setdefault('lat_kind', self.lat_kind)
        kw.setdefault('lat', self.lat)
        kw.setdefault('list_order', self.list_order)
        kw.setdefault('list_page', getattr(self, 'list_page', None))
        kw.setdefault('proc', f'p{self.nproc}')
        return store.Profile(**kw)

    def factory(self, profile=None, state=None):
        if self.make_backend_override is not None:
            return self.make_backend_override
        profile = profile or self.profile()
        state = state if state is not None else self.state
        cls = store.AsyncSimStore if self.flavour == 'async' else store.SimStore

        def mk():
            b = cls(state, profile)
            self.last_backend = b
            return b
        return mk

    def run(self, client, action, opts=None, *, unlock=True, profile=None, state=None, keep_log=False, live=False):
        if live and state is None and unlock:
            r = self._run_live(client, action, opts, profile)
        else:
            r = world.run_process(self.env, world.session(self.factory(profile, state), client, action, unlock=unlock),
                                  opts, keep_log=keep_log)
        (state if state is not None else self.state).frozen = False   # durable state outlives the process
        if self.after_run is not None:
            self.after_run(r)
        self.sim_steps += r.stats['steps']
        self.sim_s += r.stats['sim_s']
        self.switches += r.stats['switches']
        self.digests.append(r.digest)
        b = r.backend
        if b is not None and hasattr(b, 'fired'):
            for k, v in b.fired.items():
                self.fired[k] = self.fired.get(k, 0) + v
        return r

    def _run_live(self, client, action, opts, profile):
        """The command runs inside the client's long-lived process: same Repository object, same
        adapter object, same loop and threads as its previous commands."""
        profile = profile or self.profile()
        skey = '*shared*' if self.live_shared else client.name
        ent = self.live.get(skey)
        if ent is None:
            proc = world.Proc(self.env, opts)
            holder = {}

            async def first(res):
                import replicat.repository as R
                backend = self.factory(profile)()
                repo = R.Repository(backend, concurrent=client.concurrent, quiet=True, cache_directory=client.cache_dir)
                holder['repo'], holder['backend'] = repo, backend
                res.repo, res.backend = repo, backend
                try:
                    await repo.unlock(password=client.password, key=client.key)
                    holder['unlocked'] = True
                    return await action(repo)
                finally:
                    res.max_inflight = getattr(backend, 'max_inflight_slot', None)
            r = proc.run(first)
            if not proc.dead and holder.get('unlocked'):
                self.live[skey] = [proc, holder['repo'], holder['backend'], client.name]
            elif not proc.dead:
                proc.close()
            return r
        proc, repo, backend, current = ent
        if hasattr(backend, 'new_command'):
            backend.new_command(profile)
        if self.live_renew is not None:
            self.live_renew(backend)
        self.last_backend = backend

        async def nxt(res):
            res.repo, res.backend = repo, backend
            try:
                if current != client.name:
                    # the program switches to another user's credentials on the same object
                    ent[3] = None
                    await repo.unlock(password=client.password, key=client.key)
                    ent[3] = client.name
                return await action(repo)
            finally:
                res.max_inflight = getattr(backend, 'max_inflight_slot', None)
        r = proc.run(nxt)
        if proc.dead:
            del self.live[skey]
        elif ent[3] is None:
            # unlock itself failed: the program drops the object
            self.end_live_key(skey)
        return r

    def end_live_key(self, skey):
        ent = self.live.pop(skey, None)
        if ent is not None:
            ent[0].close()


    def digest(self):
        import hashlib
        return hashlib.blake2b(''.join(self.digests).encode(), digest_size=16).hexdigest()

    # ---- commands
    def init(self, client, settings, opts=None, *, key_output_path=None, **kw):
        async def act(repo):
            r = await repo.init(password=client.password, settings=gen.copy_settings(settings),
                                **({'key_output_path': key_output_path} if key_output_path else {}))
            return {'config': r.config, 'key': repo.serialize(r.key) if r.key is not None else None}
        res = self.run(client, act, opts, unlock=False, **kw)
        if res.ok:
            client.key = res.value['key']
        return res

    def add_key(self, client, new_client, *, shared=False, clone=False, settings=None, opts=None, key_output_path=None, **kw):
        """Mirrors the CLI: shared/clone unlock first; clone reuses the caller's password."""
        async def act(repo):
            if shared or clone:
                await repo.unlock(password=client.password, key=client.key)
            r = await repo.add_key(password=new_client.password if not clone else client.password,
                                   settings=gen.copy_settings(settings) if settings else None,
                                   shared=shared or clone, **({'key_output_path': key_output_path} if key_output_path else {}))
            return repo.serialize(r.new_key)
        res = self.run(client, act, opts, unlock=False, **kw)
        if res.ok:
            new_client.key = res.value
            if clone:
                new_client.password = client.password
        return res

    def snapshot(self, client, paths, opts=None, *, note=None, rate_limit=None, **kw):
        async def act(repo):
            r = await repo.snapshot(paths=[Path(p) for p in paths], note=note, rate_limit=rate_limit)
            return {'name': r.name, 'location': r.location, 'chunks': r.chunks, 'data': r.data}
        return self.run(client, act, opts, **kw)

    def restore(self, client, target, opts=None, *, snapshot_regex=None, file_regex=None, rate_limit=None, **kw):
        async def act(repo):
            r = await repo.restore(path=Path(target), snapshot_regex=snapshot_regex, file_regex=file_regex,
                                   rate_limit=rate_limit)
            return {'files': r.files}
        return self.run(client, act, opts, **kw)

    def delete(self, client, names, opts=None, **kw):
        async def act(repo):
            return await repo.delete_snapshots(list(names), confirm=False)
        return self.run(client, act, opts, **kw)

    def clean(self, client, opts=None, **kw):
        async def act(repo):
            return await repo.clean()
        return self.run(client, act, opts, **kw)

    def list_snapshots(self, client, opts=None, *, snapshot_regex=None, header=True, columns=None, **kw):
        async def act(repo):
            return await repo.list_snapshots(snapshot_regex=snapshot_regex, header=header, columns=columns)
        return self.run(client, act, opts, **kw)

    def list_files(self, client, opts=None, *, snapshot_regex=None, file_regex=None, header=True, columns=None, **kw):
        async def act(repo):
            return await repo.list_files(snapshot_regex=snapshot_regex, file_regex=file_regex, header=header,
                                         columns=columns)
        return self.run(client, act, opts, **kw)


def restored_path(target, recorded_path):
    return Path(target, *Path(recorded_path).parts[1:])


def manifest(snapshot_value):
    """Schedule-independent normal form of a snapshot() result."""
    files = {}
    for f in snapshot_value['data']['files']:
        chunks = sorted(((c['counter'], c['index'], tuple(c['range'])) for c in f['chunks']))
        md = f['metadata']
        files[f['path']] = (chunks, f['digest'].hex() if f['digest'] is not None else None,
                            None if md is None else (md['st_size'], md['st_mtime_ns']))
    return {'files': files, 'chunks': [c.hex() for c in snapshot_value['chunks']]}


def rng_for(seed, label):
    return substream(seed, label)

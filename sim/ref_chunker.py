"""RefChunker: pure-Python specification of the GCLMUL chunker with full knowledge of the
stream (no pieces, no memory beyond the data).  Written from the statement of C10 and the
published CLMUL construction; integers only."""

MASK64 = (1 << 64) - 1


def clmul64(a, b):
    """Carry-less product of two 64-bit integers (128-bit result)."""
    r = 0
    while b:
        low = b & -b
        r ^= a * low          # a << bit position
        b ^= low
    return r


class RefChunker:
    def __init__(self, min_length, max_length, key):
        assert len(key) == 16
        self.min, self.max = min_length, max_length
        self.k0 = int.from_bytes(key[:8], 'little')
        self.k1 = int.from_bytes(key[8:], 'little')
        if self.k0 == 0:
            raise ValueError('bad key')

    def hash_at(self, data, offset, base=0):
        """Keyed hash of the 8-byte window [offset-4, offset+4) (relative to base)."""
        w = data[base + offset - 4: base + offset + 4]
        if len(w) < 8:
            return None       # window not inside the data: undefined by the specification
        v = clmul64(self.k0, int.from_bytes(w, 'little'))
        u = clmul64(27, v >> 64)
        return (self.k1 ^ u ^ v) & MASK64

    def cut_full(self, data, base):
        """Cut for a chunk starting at base when at least max+4 bytes follow (the decision only
        looks at aligned offsets 4..<max)."""
        best, besti = 0, 0
        for i in range(4, self.max, 4):
            h = self.hash_at(data, i, base)
            if h is None:
                return None
            if h > best:
                best, besti = h, i
        if besti < self.min:
            besti = (self.min + 3) & -4
        return besti

    def chunks_outside_tail(self, data):
        """[(start, length)] of the chunks that begin more than 2*max before the end."""
        out = []
        pos = 0
        n = len(data)
        while n - pos > 2 * self.max:
            c = self.cut_full(data, pos)
            if c is None or c <= 0:
                break
            out.append((pos, c))
            pos += c
        return out

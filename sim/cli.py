"""replicat's real command-line entry point (replicat.__main__.main) inside the simulation: argument and
configuration handling and the logging set-up run as shipped; asyncio.run() is the seam - the command's
coroutine becomes one simulated process over the universe's store."""
import asyncio
import contextlib
import io
import logging
import sys
import types

from . import store, world
from .install import _ModProxy

_CUR = {}


def _register_backend():
    """-r simstore:<anything> resolves to the store of the universe that is current."""
    name = 'replicat.backends.simstore'
    if name in sys.modules:
        return
    import replicat.backends as B

    class Client(store.AsyncSimStore, short_name='SIM'):
        def __init__(self, connection_string):
            W = _CUR['W']
            store.AsyncSimStore.__init__(self, W.state, W.profile(lat_kind='zero'))

    mod = types.ModuleType(name)
    mod.Client = Client
    sys.modules[name] = mod
    B.simstore = mod


class CliResult:
    def __init__(self):
        self.status = None      # 'ok' | 'exit:<code>' | 'raised'
        self.exc = None
        self.stdout = ''
        self.stderr = ''
        self.proc = None


def run_cli(W, argv, opts=None):
    import replicat.__main__ as M
    _register_backend()
    _CUR['W'] = W
    res = CliResult()

    def fake_run(coro):
        r = world.run_process(W.env, lambda _res: coro, opts or world.SchedOpts.sequential())
        W.state.frozen = False
        res.proc = r
        W.sim_steps += r.stats['steps']
        W.sim_s += r.stats['sim_s']
        W.digests.append(r.digest)
        if r.hang is not None:
            raise RuntimeError(f'command did not terminate: {r.hang}')
        if r.exc is not None:
            raise r.exc
        return r.value

    root = logging.getLogger()
    rl = logging.getLogger('replicat')
    bl = logging.getLogger('backoff')
    saved = (M.asyncio, sys.argv, root.level, list(root.handlers), rl.level, bl.level, list(bl.handlers))
    out, err = io.StringIO(), io.StringIO()
    try:
        with contextlib.redirect_stdout(out), contextlib.redirect_stderr(err):
            M.asyncio = _ModProxy(asyncio, run=fake_run)
            sys.argv = ['replicat'] + [str(a) for a in argv]
            rl.setLevel(logging.NOTSET)        # the CLI's own logging configuration decides
            try:
                M.main()
                res.status = 'ok'
            except SystemExit as e:
                res.status = f'exit:{e.code}'
            except Exception as e:  # noqa
                res.status, res.exc = 'raised', e
    finally:
        M.asyncio, sys.argv = saved[0], saved[1]
        for h in list(root.handlers):
            if h not in saved[3]:
                root.removeHandler(h)
        root.setLevel(saved[2])
        rl.setLevel(saved[4])
        bl.setLevel(saved[5])
        for h in list(bl.handlers):
            if h not in saved[6]:
                bl.removeHandler(h)
    res.stdout = out.getvalue() + (res.proc.stdout if res.proc is not None else '')
    res.stderr = err.getvalue() + (res.proc.stderr if res.proc is not None else '')
    return res

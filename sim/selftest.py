"""setup + self-tests: determinism (same seed twice, other process, other hash seed),
sensitivity (source mutants must be caught by the property's quick tier) and regressions
(replays of fixed defects must fail on the pre-fix source and pass on the working tree)."""
import json
import os
import shutil
import subprocess
import sys
import time
from pathlib import Path

VERIF = Path(__file__).resolve().parent.parent
MUT_ROOT = Path('/dev/shm/replicat-verif-selftest')


def setup():
    from . import native
    so = native.build(verbose=True)
    native.import_replicat()
    print('shim ok:', so)
    rc = determinism(['C09'], seeds=12, quiet=True)
    print('setup determinism smoke:', 'ok' if rc == 0 else 'FAILED')
    return rc


def _copy_repo(dest, ref=None):
    shutil.rmtree(dest, ignore_errors=True)
    dest.mkdir(parents=True)
    if ref is None:
        for name in ('replicat', 'src'):
            shutil.copytree(Path('/repo') / name, dest / name, ignore=shutil.ignore_patterns('__pycache__', 'tests'))
    else:
        subprocess.run(f'git -C /repo archive {ref} replicat src | tar -x -C {dest}', shell=True, check=True)
        shutil.rmtree(dest / 'replicat' / 'tests', ignore_errors=True)


def _run_check(prop, src, budget, extra_env=None, tier='quick'):
    env = dict(os.environ)
    env.update({'REPLICAT_SRC': str(src), 'VERIF_EVIDENCE_DIR': str(MUT_ROOT / 'evidence'),
                'VERIF_REPLAY_DIR': str(MUT_ROOT / 'replays'), 'VERIF_SCRATCH': str(MUT_ROOT / 'scratch'),
                'VERIF_BUDGET_S': str(budget)})
    env.update(extra_env or {})
    r = subprocess.run([sys.executable, str(VERIF / 'run.py'), 'check', prop, '--tier', tier], env=env,
                       capture_output=True, text=True)
    return r


def mutants(props=None, budget=40):
    mdir = VERIF / 'selftest' / 'mutants'
    results = []
    for diff in sorted(mdir.glob('*.diff')):
        prop = diff.name.split('-')[0]
        if props and prop not in props:
            continue
        src = MUT_ROOT / 'src' / diff.stem
        _copy_repo(src)
        p = subprocess.run(['patch', '-p1', '-s', '-i', str(diff)], cwd=src, capture_output=True, text=True)
        if p.returncode != 0:
            results.append((diff.stem, 'PATCH-FAILED', p.stdout + p.stderr))
            print(f'{diff.stem}: PATCH-FAILED {p.stdout.strip()[:200]}')
            continue
        t0 = time.time()
        r = _run_check(prop, src, budget)
        caught = r.returncode == 1 and 'VIOLATION property=' + prop in r.stdout
        cls = [l.strip() for l in r.stdout.splitlines() if l.strip().startswith('class=')]
        results.append((diff.stem, 'caught' if caught else f'MISSED(exit={r.returncode})', cls[:2]))
        print(f'{diff.stem}: {"caught" if caught else "MISSED exit=" + str(r.returncode)} in {time.time() - t0:.0f}s '
              f'{(cls[0][:150] if cls else r.stdout.strip().splitlines()[-1][:200] if r.stdout.strip() else r.stderr[-300:])}')
        shutil.rmtree(src, ignore_errors=True)
    shutil.rmtree(MUT_ROOT, ignore_errors=True)
    missed = [r for r in results if r[1] != 'caught']
    print(f'mutants: {len(results) - len(missed)}/{len(results)} caught')
    out = VERIF / 'selftest' / 'mutants_results.json'
    prev = json.loads(out.read_text()) if out.exists() else {}
    for name, verdict, cls in results:
        prev[name] = {'verdict': verdict, 'caught_as': [c.split(' seed=')[0].replace('class=', '') for c in cls][:2]}
    out.write_text(json.dumps(dict(sorted(prev.items())), indent=1))
    return 1 if missed else 0


def regressions():
    """Each replay of a fixed defect must reproduce on the parent of its fix commit and not on the working tree."""
    kf = json.loads((VERIF / 'known_findings.json').read_text())
    bad = 0
    for f in kf['findings']:
        if f.get('status') != 'fixed' or not f.get('regression'):
            continue
        rp = VERIF / f['regression']
        src = MUT_ROOT / 'src' / ('pre-' + f['id'])
        _copy_repo(src, ref=f['commit'] + '^')
        env = dict(os.environ, REPLICAT_SRC=str(src), VERIF_SCRATCH=str(MUT_ROOT / 'scratch'))
        r1 = subprocess.run([sys.executable, str(VERIF / 'run.py'), 'replay', str(rp)], env=env, capture_output=True, text=True)
        env2 = dict(os.environ, VERIF_SCRATCH=str(MUT_ROOT / 'scratch'))
        env2.pop('REPLICAT_SRC', None)
        r2 = subprocess.run([sys.executable, str(VERIF / 'run.py'), 'replay', str(rp)], env=env2, capture_output=True, text=True)
        ok = r1.returncode in (1, 2) and ('REPRODUCED' in r1.stdout or 'REPLAY-DIVERGED' in r1.stdout) and r2.returncode == 0
        print(f'{f["id"]}: pre-fix {"fails" if r1.returncode else "passes"} / working tree {"passes" if r2.returncode == 0 else "fails"} -> {"ok" if ok else "BAD"}')
        bad += not ok
        shutil.rmtree(src, ignore_errors=True)
    shutil.rmtree(MUT_ROOT, ignore_errors=True)
    return 1 if bad else 0


def _digests(prop, seeds, hashseed, tier='quick'):
    code = (
        "import sys, json\n"
        f"sys.path.insert(0, {str(VERIF)!r})\n"
        "from sim import native\nnative.import_replicat()\nfrom sim import runner\n"
        f"mod = runner.get_check({prop!r})\nout = {{}}\n"
        f"for seed in {list(seeds)!r}:\n"
        f"    r = mod.run_case(mod.gen_case(seed, {tier!r}))\n"
        "    out[seed] = [r.get('digest'), sorted(v['cls'] for v in r['violations'])]\n"
        "print('DIGESTS' + json.dumps(out))\n")
    env = dict(os.environ, PYTHONHASHSEED=str(hashseed))
    r = subprocess.run([sys.executable, '-c', code], env=env, capture_output=True, text=True, cwd=str(VERIF))
    for line in r.stdout.splitlines():
        if line.startswith('DIGESTS'):
            return json.loads(line[7:])
    raise RuntimeError(f'digest run failed: {r.stdout[-500:]} {r.stderr[-1500:]}')


def determinism(props, seeds=40, quiet=False):
    """Same seeds: twice in fresh interpreters (in different orders), and under another
    PYTHONHASHSEED (verdicts must agree; digests must agree for equal pins)."""
    from concurrent.futures import ThreadPoolExecutor
    base = 7_000_000

    def one(prop):
        # the three runs of one property share scratch paths (a function of (check, seed)),
        # so they run one after the other; properties run side by side
        sl = list(range(base, base + seeds))
        a = _digests(prop, sl, 0)
        b = _digests(prop, list(reversed(sl)), 0)
        c = _digests(prop, sl, 12345)
        d1 = [s for s in a if a[s] != b[s]]
        d2 = [s for s in a if a[s][1] != c[s][1]]
        return prop, d1, d2

    bad = 0
    with ThreadPoolExecutor(8) as ex:
        for prop, d1, d2 in ex.map(one, props):
            if not quiet or d1 or d2:
                print(f'{prop}: {seeds} seeds x2 fresh interpreters (reversed order): {len(d1)} digest mismatches; '
                      f'PYTHONHASHSEED=12345: {len(d2)} verdict mismatches' + (f' e.g. {d1[:3]} {d2[:3]}' if d1 or d2 else ''))
            bad += bool(d1 or d2)
    return 1 if bad else 0


def main(args):
    props = args.props.split(',') if args.props else None
    rc = 0
    if args.what in ('determinism', 'all'):
        allp = props or sorted(p.stem.upper() for p in (VERIF / 'checks').glob('c[0-9]*.py'))
        rc |= determinism(allp, seeds=args.seeds)
    if args.what in ('mutants', 'all'):
        rc |= mutants(props)
    if args.what in ('regressions', 'all'):
        rc |= regressions()
    return rc

"""setup + self-tests (determinism, mutants, regressions)."""
import sys


def setup():
    from . import native
    so = native.build(verbose=True)
    native.import_replicat()
    print('shim ok:', so)
    return 0


def main(args):
    print('selftest: not implemented yet')
    return 0

"""RefSigV4: AWS Signature Version 4 for S3, written from the published algorithm.
Recomputes the signature from the bytes of the request as it was put on the wire."""
import hashlib
import hmac
import re

UNRESERVED = b'ABCDEFGHIJKLMNOPQRSTUVWXYZabcdefghijklmnopqrstuvwxyz0123456789-_.~'


class SigError(Exception):
    pass


def pct_decode(b, plus_is_space=False):
    out = bytearray()
    i = 0
    while i < len(b):
        c = b[i]
        if c == 0x25:  # %
            h = b[i + 1:i + 3]
            if len(h) != 2 or not re.fullmatch(rb'[0-9A-Fa-f]{2}', h):
                raise SigError(f'malformed percent escape in {b!r}')
            out.append(int(h, 16))
            i += 3
            continue
        if plus_is_space and c == 0x2B:
            out.append(0x20)
        else:
            out.append(c)
        i += 1
    return bytes(out)


def aws_encode(b, keep_slash=False):
    out = []
    for c in b:
        if c in UNRESERVED or (keep_slash and c == 0x2F):
            out.append(chr(c))
        else:
            out.append('%%%02X' % c)
    return ''.join(out)


def _hmac(key, msg):
    return hmac.new(key, msg, hashlib.sha256).digest()


def verify(*, method, raw_target, headers, body, secret_lookup, region, service='s3', now=None):
    """headers: list of (name bytes, value bytes) as sent.  Returns dict with details; raises SigError."""
    hdr = {}
    for k, v in headers:
        k = k.decode('latin-1').lower()
        v = v.decode('latin-1')
        hdr[k] = (hdr[k] + ',' + v) if k in hdr else v
    auth = hdr.get('authorization')
    if not auth:
        raise SigError('no Authorization header')
    m = re.fullmatch(r'AWS4-HMAC-SHA256 Credential=([^/]+)/(\d{8})/([^/]+)/([^/]+)/aws4_request, ?SignedHeaders=([^,]+), ?Signature=([0-9a-f]{64})', auth)
    if not m:
        raise SigError(f'malformed Authorization header: {auth!r}')
    key_id, date, reg, svc, signed, signature = m.groups()
    if reg != region or svc != service:
        raise SigError(f'credential scope {reg}/{svc} does not match the endpoint ({region}/{service})')
    secret = secret_lookup(key_id)
    if secret is None:
        raise SigError(f'unknown access key id {key_id!r}')
    amzdate = hdr.get('x-amz-date')
    if not amzdate or not re.fullmatch(r'\d{8}T\d{6}Z', amzdate):
        raise SigError(f'missing/malformed x-amz-date: {amzdate!r}')
    if amzdate[:8] != date:
        raise SigError(f'credential date {date} != x-amz-date {amzdate}')
    signed_list = signed.split(';')
    if signed_list != sorted(signed_list):
        raise SigError('SignedHeaders not sorted')
    for need in ('host', 'x-amz-content-sha256', 'x-amz-date'):
        if need not in signed_list:
            raise SigError(f'{need} is not a signed header')
    # canonical URI / query from the raw request target
    path, _, query = raw_target.partition(b'?')
    segs = [aws_encode(pct_decode(s)) for s in path.split(b'/')]
    canonical_uri = '/'.join(segs) or '/'
    pairs = []
    if query:
        for part in query.split(b'&'):
            if not part:
                continue
            k, _, v = part.partition(b'=')
            pairs.append((aws_encode(pct_decode(k, True)), aws_encode(pct_decode(v, True))))
    pairs.sort()
    canonical_query = '&'.join(f'{k}={v}' for k, v in pairs)
    canon_headers = ''
    for name in signed_list:
        if name not in hdr:
            raise SigError(f'signed header {name} was not sent')
        canon_headers += name + ':' + ' '.join(hdr[name].split()) + '\n'
    payload_hash = hdr['x-amz-content-sha256']
    if payload_hash != 'UNSIGNED-PAYLOAD':
        actual = hashlib.sha256(body).hexdigest()
        if payload_hash != actual:
            raise SigError(f'x-amz-content-sha256 {payload_hash[:16]}.. does not match the body sent ({actual[:16]}.., {len(body)} bytes)')
    if 'content-length' in hdr and int(hdr['content-length']) != len(body):
        raise SigError(f'content-length {hdr["content-length"]} != {len(body)} bytes sent')
    creq = '\n'.join([method, canonical_uri, canonical_query, canon_headers, signed, payload_hash])
    scope = f'{date}/{region}/{service}/aws4_request'
    sts = '\n'.join(['AWS4-HMAC-SHA256', amzdate, scope, hashlib.sha256(creq.encode()).hexdigest()])
    k = _hmac(('AWS4' + secret).encode(), date.encode())
    k = _hmac(k, region.encode())
    k = _hmac(k, service.encode())
    k = _hmac(k, b'aws4_request')
    expect = hmac.new(k, sts.encode(), hashlib.sha256).hexdigest()
    if expect != signature:
        raise SigError(f'signature mismatch for canonical request {creq!r}')
    if now is not None:
        import datetime as _dt
        t = _dt.datetime.strptime(amzdate, '%Y%m%dT%H%M%SZ')
        if abs((t - now).total_seconds()) > 15 * 60:
            raise SigError(f'x-amz-date {amzdate} is more than 15 minutes from the server clock {now}')
    return {'canonical_uri': canonical_uri, 'canonical_query': canonical_query, 'pairs': pairs}

"""File-system seam under replicat.backends.local: every syscall the adapter makes is a
scheduling point, a crash point and a fault point.  Pass-through to a real tmpfs directory
(process-kill model: completed syscalls persist, a write in progress may be torn)."""
import errno
import os as _os
import pathlib
import shutil as _shutil

from . import core
from .install import CTX, _ModProxy

_Base = type(pathlib.Path())


class FS:
    """Per-process fault/crash plan and syscall log for the seam."""

    def __init__(self, *, faults=None, crash_at=None, torn_rng=None, order_rng=None):
        self.n = 0                   # syscalls so far
        self.faults = dict(faults or {})     # syscall index -> errno name | ('short', errno)
        self.fault_kinds = {}        # kind ('write', 'replace', ...) -> list of [remaining count, errno]
        self.crash_at = crash_at     # crash just before syscall #k (a write may be torn instead)
        self.torn_rng = torn_rng
        self.order_rng = order_rng
        self.crashed = False
        self.log = []
        self.fired = {}
        self.tmp_counter = 0
        self.writing = set()         # paths with an open write handle
        self.dirty = set()           # paths whose content is incomplete (torn / short / failed write)

    def fail_next(self, kind, err, count=1, skip=0):
        self.fault_kinds.setdefault(kind, []).append([count, err, skip])

    def op(self, kind, path=None, data=None):
        """Called before every syscall.  May raise OSError (fault), SimAbort (crash)."""
        s = CTX.s
        if self.crashed:
            raise core.SimAbort
        idx = self.n
        self.n += 1
        self.log.append((kind, str(path) if path is not None else None))
        if s is not None:
            s.log('fs', kind, _os.path.basename(str(path)) if path is not None else None)
            s.yield_()
        if self.crash_at is not None and idx == self.crash_at:
            self.crashed = True
            self.fired['crash'] = self.fired.get('crash', 0) + 1
            torn = None
            if kind == 'write' and data and self.torn_rng is not None and self.torn_rng.random() < 0.7:
                torn = self.torn_rng.randrange(0, len(data))
                self.fired['torn_write'] = self.fired.get('torn_write', 0) + 1
            raise _Crash(torn)
        f = self.faults.pop(idx, None)
        if f is None:
            for rec in self.fault_kinds.get(kind, []):
                if rec[2] > 0:
                    rec[2] -= 1
                    break
                if rec[0] > 0:
                    rec[0] -= 1
                    f = rec[1]
                    break
        if f == 'RMPARENT':
            # somebody else's clean-up removed the (empty) directory: a real state change, not just an errno
            self.fired[f'{kind}:RMPARENT'] = self.fired.get(f'{kind}:RMPARENT', 0) + 1
            d = _os.path.dirname(str(path))
            try:
                while d and not _os.listdir(d):
                    _os.rmdir(d)
                    d = _os.path.dirname(d)
            except OSError:
                pass
            return
        if f is not None:
            self.fired[f'{kind}:{f}'] = self.fired.get(f'{kind}:{f}', 0) + 1
            if f == 'ENOSPC' and kind == 'write' and data:
                raise _Short(len(data) // 2)
            raise OSError(getattr(errno, f), _os.strerror(getattr(errno, f)), str(path) if path else None)


class _Crash(BaseException):
    def __init__(self, torn):
        self.torn = torn


class _Short(Exception):
    def __init__(self, n):
        self.n = n


def _fs():
    fs = CTX.fs
    if fs is None:
        raise core.HarnessError('FS seam used without an FS plan')
    return fs


def _crash_now(msg):
    CTX.s.abort(core.SimCrash(msg))


class SimFile:
    """Unbuffered file object: each read()/write() is one syscall."""

    def __init__(self, path, mode):
        self._path = path
        self._f = open(path, mode, buffering=0)
        self.mode = mode
        self._w = any(c in mode for c in 'wax+')
        if self._w:
            fs = _fs()
            fs.writing.add(str(path))
            fs.dirty.discard(str(path))

    def fileno(self):
        return self._f.fileno()

    def read(self, n=-1):
        _guard('read', self._path)
        return self._f.read(n) if n is not None and n >= 0 else self._f.readall()

    def write(self, data):
        data = bytes(data)
        try:
            _fs().op('write', self._path, data)
        except _Crash as c:
            _fs().dirty.add(str(self._path))
            if c.torn is not None:
                self._f.write(data[:c.torn])
            _crash_now(f'crash inside write to {self._path.name}')
        except _Short as sh:
            _fs().dirty.add(str(self._path))
            self._f.write(data[:sh.n])
            raise OSError(errno.ENOSPC, _os.strerror(errno.ENOSPC), str(self._path)) from None
        except OSError:
            _fs().dirty.add(str(self._path))
            raise
        return self._f.write(data)

    def seek(self, *a):
        return self._f.seek(*a)

    def tell(self):
        return self._f.tell()

    def truncate(self, *a):
        return self._f.truncate(*a)

    def close(self):
        self._f.close()
        if self._w and CTX.fs is not None and not CTX.fs.crashed:
            CTX.fs.writing.discard(str(self._path))

    def __enter__(self):
        return self

    def __exit__(self, *a):
        # leaving the block because of an exception (or the crash) means the content is incomplete
        if self._w and a[0] is not None and CTX.fs is not None:
            CTX.fs.dirty.add(str(self._path))
        self.close()


def _guard(kind, path, data=None):
    try:
        _fs().op(kind, path, data)
    except _Crash:
        _crash_now(f'crash before {kind} {getattr(path, "name", path)}')


class SimPath(_Base):
    def mkdir(self, mode=0o777, parents=False, exist_ok=False):
        _guard('mkdir', self)
        return _Base.mkdir(self, mode, parents=parents, exist_ok=exist_ok)

    def open(self, mode='r', buffering=-1, encoding=None, errors=None, newline=None):
        if 'b' not in mode:
            return _Base.open(self, mode, buffering, encoding, errors, newline)
        _guard('open', self)
        return SimFile(self, mode)

    def write_bytes(self, data):
        with self.open('wb') as f:
            return f.write(data)

    def read_bytes(self):
        with self.open('rb') as f:
            return f.read()

    def replace(self, target):
        _guard('replace', self)
        fs = _fs()
        r = _Base.replace(self, target)
        if str(self) in fs.dirty or str(self) in fs.writing:
            fs.dirty.add(str(target))
        else:
            fs.dirty.discard(str(target))
        fs.dirty.discard(str(self))
        return r

    def stat(self, *a, **k):
        # a scheduling point only (pathlib calls it internally as well, so it is not a fault-injection point)
        s = CTX.s
        if s is not None and not (CTX.fs is not None and CTX.fs.crashed):
            s.yield_()
        return _Base.stat(self, *a, **k)

    def unlink(self, missing_ok=False):
        _guard('unlink', self)
        r = _Base.unlink(self, missing_ok=missing_ok)
        _fs().dirty.discard(str(self))
        return r


class _TmpHandle:
    def __init__(self, name):
        self.name = name


def sim_named_temporary_file(prefix='', suffix='', dir=None, delete=False):
    """Deterministic replacement of tempfile.NamedTemporaryFile(delete=False).name."""
    fs = _fs()
    fs.tmp_counter += 1
    env = CTX.env
    env.tmp_counter += 1
    # as tempfile._mkstemp_inner: the directory is made absolute TEXTUALLY (os.path.abspath collapses 'x/..')
    name = _os.path.join(_os.path.abspath(str(dir)), f'{prefix}{env.tmp_counter:06d}{suffix}')
    _guard('mktemp', SimPath(name))
    fd = _os.open(name, _os.O_CREAT | _os.O_EXCL | _os.O_WRONLY, 0o600)
    _os.close(fd)
    return _TmpHandle(name)


def _scandir(path):
    if CTX.fs is None:
        # not under a Local backend (e.g. the source tree walk of snapshot): the order in which a
        # directory is enumerated is an arbitrary choice of the file system - seeded here
        entries = sorted(_os.scandir(path), key=lambda e: e.name)
        if CTX.env is not None and CTX.s is not None:
            CTX.env.fsorder.shuffle(entries)
        return _ScandirIt(entries)
    _guard('scandir', path)
    entries = list(_os.scandir(path))
    entries.sort(key=lambda e: e.name)
    rng = _fs().order_rng
    if rng is not None:
        rng.shuffle(entries)
    return _ScandirIt(entries)


class _ScandirIt:
    def __init__(self, entries):
        self.entries = entries

    def __iter__(self):
        return iter(self.entries)

    def __enter__(self):
        return self

    def __exit__(self, *a):
        return False

    def close(self):
        pass


def _exists(path):
    _guard('stat', path)
    return _os.path.exists(path)


def _rmdir(path):
    _guard('rmdir', path)
    return _os.rmdir(path)


def _copyfileobj(fsrc, fdst, length=0):
    length = length or 64 * 1024
    while True:
        buf = fsrc.read(length)
        if not buf:
            break
        fdst.write(buf)


_installed = False


def install_fs_seam():
    global _installed
    if _installed:
        return
    import replicat.backends.local as L
    import replicat.utils.fs as F
    os_proxy = _ModProxy(_os, scandir=_scandir, rmdir=_rmdir,
                         path=_ModProxy(_os.path, exists=_exists))
    L.Path = SimPath
    L.NamedTemporaryFile = sim_named_temporary_file
    L.os = os_proxy
    L.shutil = _ModProxy(_shutil, copyfileobj=_copyfileobj)
    F.os = _ModProxy(_os, scandir=_scandir)
    _installed = True


def partial_visible(fs):
    """Paths that the adapter's API would show (not *.tmp) although their content is incomplete."""
    return sorted(p for p in (fs.dirty | fs.writing) if not p.endswith('.tmp') and _os.path.exists(p))


def make_local(root, fs):
    """A real Local adapter on `root` whose syscalls go through the seam with plan `fs`."""
    import replicat.backends.local as L
    install_fs_seam()
    CTX.fs = fs
    return L.Local(str(root))

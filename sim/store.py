"""SimStore: in-memory object store stub behind replicat's Backend interface.

`StoreState` is the durable part (survives simulated crashes / process restarts).
`SimStore` / `AsyncSimStore` are per-process adapters with seeded latencies, fault plans,
in-flight accounting and crash points."""
import asyncio

from replicat.backends.base import Backend

from . import core
from .install import CTX

SLOT_OPS = ('exists', 'upload', 'upload_stream', 'download', 'download_stream', 'delete', 'clean', 'close')
MUTATIONS = ('upload', 'upload_stream', 'delete')


class SimBackendError(OSError):
    """Injected permanent failure of one backend call."""


class StoreState:
    def __init__(self):
        self.objects = {}
        self.journal = []       # (proc, op, name, size or None)
        self.commits = 0        # number of mutation commits ever applied
        self.frozen = False
        self.payload_log = None  # optional: every (name, bytes) ever uploaded

    def copy(self):
        c = StoreState()
        c.objects = dict(self.objects)
        c.journal = list(self.journal)
        c.commits = self.commits
        c.payload_log = None if self.payload_log is None else list(self.payload_log)
        return c


class Profile:
    """Per-process behaviour of the store adapter (all choices seeded by the caller)."""

    def __init__(self, *, lat_kind='uniform', lat=0.01, stall_call=None, crash_at=None,
                 crash_commit_inflight=None, fail_call=None, fail_mode='before', proc='p',
                 list_order='sorted', fail_op=None, stall_time=30.0, exists_lies_p=0.0, unavailable=(), lat_cap=60.0,
                 list_page=None):
        self.list_page = list_page            # a listing arrives in pages of this many names, one round trip each
        self.lat_cap = lat_cap
        self.stall_time = stall_time
        self.exists_lies_p = exists_lies_p    # eventual consistency: exists() may deny an object that is there
        self.unavailable = set(unavailable)   # objects that cannot be read during this process (still listed)
        self.lat_kind, self.lat = lat_kind, lat
        self.stall_call = stall_call          # index of one call that takes very long
        self.crash_at = crash_at              # crash just before the k-th mutation commit of this process
        self.crash_commit_inflight = crash_commit_inflight  # rng deciding whether in-flight calls committed
        self.fail_call = fail_call            # index (among all calls of this process) that fails for good
        self.fail_mode = fail_mode            # 'before' (not applied) | 'after' (applied, ack lost)
        self.fail_op = fail_op                # restrict fail_call counting to one op kind
        self.proc = proc
        self.list_order = list_order


class _Base:
    def _init(self, state, profile):
        self.state = state
        self.profile = profile
        self.calls = 0
        self.commits = 0            # mutation commits attempted by this process
        self.inflight = {}
        self.inflight_slot = 0
        self.max_inflight_slot = 0
        self.counts = {}
        self.payload_uploaded = 0   # bytes uploaded under data/
        self.uploads = []           # names uploaded by this process
        self.fired = {}
        self.failed_call_desc = None
        self._fail_seen = 0

    def new_command(self, profile):
        """The same adapter object serves the next command of a long-lived process: fault plan and
        per-command accounting start over, calls still in flight keep their own record."""
        self.profile = profile
        self.calls = 0
        self.commits = 0
        self.max_inflight_slot = self.inflight_slot
        self.counts = {}
        self.payload_uploaded = 0
        self.uploads = []
        self.failed_call_desc = None
        self._fail_seen = 0
        self.fired = {}

    # --- bookkeeping shared by both flavours
    def _begin(self, op, name, data=None):
        s = CTX.s
        if self.state.frozen:
            raise core.SimAbort
        idx = self.calls
        self.calls += 1
        self.counts[op] = self.counts.get(op, 0) + 1
        rec = {'op': op, 'name': name, 'data': data, 'idx': idx}
        self.inflight[idx] = rec
        if op in SLOT_OPS:
            self.inflight_slot += 1
            self.max_inflight_slot = max(self.max_inflight_slot, self.inflight_slot)
        s.log('io-begin', op, name)
        p = self.profile
        fail = False
        if p.fail_call is not None and (p.fail_op is None or p.fail_op == op):
            if self._fail_seen == p.fail_call:
                fail = True
            self._fail_seen += 1
        rec['fail'] = fail
        return rec

    def _latency(self, rec):
        p = self.profile
        rng = CTX.env.latency
        if p.stall_call is not None and rec['idx'] == p.stall_call:
            self.fired['stall'] = self.fired.get('stall', 0) + 1
            return p.stall_time * (1.0 + rng.random())
        if p.lat_kind == 'zero':
            return 0.0
        if p.lat_kind == 'uniform':
            return rng.random() * p.lat
        if p.lat_kind == 'heavy':
            return min(p.lat * (rng.paretovariate(1.2) - 1.0), p.lat_cap)
        if p.lat_kind == 'bimodal':
            return p.lat * (10.0 if rng.random() < 0.1 else 0.1) * rng.random()
        return 0.0

    def _end(self, rec):
        if rec.get('ended'):
            return
        rec['ended'] = True
        self.inflight.pop(rec['idx'], None)
        if rec['op'] in SLOT_OPS:
            self.inflight_slot -= 1
        s = CTX.s
        if s is not None:
            s.log('io-end', rec['op'], rec['name'])

    def _fail_before(self, rec):
        if rec['fail'] and self.profile.fail_mode == 'before':
            self.fired['fail_before'] = self.fired.get('fail_before', 0) + 1
            self.failed_call_desc = (rec['op'], rec['name'])
            self._end(rec)
            raise SimBackendError(f'injected failure of {rec["op"]} {rec["name"]}')

    def _fail_after(self, rec):
        if rec['fail'] and self.profile.fail_mode == 'after':
            self.fired['fail_after'] = self.fired.get('fail_after', 0) + 1
            self.failed_call_desc = (rec['op'], rec['name'])
            self._end(rec)
            raise SimBackendError(f'injected lost acknowledgement of {rec["op"]} {rec["name"]}')

    def _apply(self, op, name, data):
        st = self.state
        if op == 'delete':
            st.objects.pop(name, None)
            st.journal.append((self.profile.proc, 'delete', name, None))
        else:
            st.objects[name] = data
            st.journal.append((self.profile.proc, 'upload', name, len(data)))
            if st.payload_log is not None:
                st.payload_log.append((name, data))
            self.uploads.append(name)
            if name.startswith('data/'):
                self.payload_uploaded += len(data)
        st.commits += 1

    def _commit(self, rec, data=None):
        """Atomic mutation; also the crash point."""
        st = self.state
        if st.frozen:
            raise core.SimAbort
        p = self.profile
        if p.crash_at is not None and self.commits == p.crash_at:
            # the process dies before this mutation is applied; other mutations already
            # handed to the service may or may not have been applied
            st.frozen = True
            self.fired['crash'] = self.fired.get('crash', 0) + 1
            if p.crash_commit_inflight is not None:
                for idx in sorted(self.inflight):
                    r = self.inflight[idx]
                    if r is rec or r['op'] not in MUTATIONS:
                        continue
                    if r['op'] != 'delete' and r['data'] is None:
                        continue
                    if r.get('committed'):
                        continue
                    if p.crash_commit_inflight.random() < 0.5:
                        self._apply(r['op'], r['name'], r['data'])
                        self.fired['crash_inflight_commit'] = self.fired.get('crash_inflight_commit', 0) + 1
            CTX.s.abort(core.SimCrash(f'crash before commit #{self.commits} ({rec["op"]} {rec["name"]})'))
        self.commits += 1
        rec['committed'] = True
        self._apply(rec['op'], rec['name'], data)
        CTX.s.log('io-commit', rec['op'], rec['name'])

    def _exists_answer(self, name):
        p = self.profile
        if name in p.unavailable:
            self.fired['unavailable'] = self.fired.get('unavailable', 0) + 1
            return False
        present = name in self.state.objects
        if present and p.exists_lies_p and CTX.env.fault.random() < p.exists_lies_p:
            self.fired['exists_lied'] = self.fired.get('exists_lied', 0) + 1
            return False
        return present

    def _check_available(self, name):
        if name in self.profile.unavailable:
            self.fired['unavailable'] = self.fired.get('unavailable', 0) + 1
            raise SimBackendError(f'injected: object {name} temporarily cannot be read')

    def _listing(self, prefix):
        names = [k for k in self.state.objects if k.startswith(prefix)]
        names.sort()
        if self.profile.list_order == 'shuffled':
            CTX.env.fsorder.shuffle(names)
        elif self.profile.list_order == 'reversed':
            names.reverse()
        return names


class SimStore(_Base, Backend):
    flavour = 'sync'

    def __init__(self, state, profile):
        self._init(state, profile)

    def _pause(self, d):
        if d > 0:
            CTX.s.sleep(d)
        else:
            CTX.s.yield_()

    def exists(self, name):
        rec = self._begin('exists', name)
        try:
            self._pause(self._latency(rec))
            self._fail_before(rec)
            return self._exists_answer(name)
        finally:
            self._end(rec)

    def upload(self, name, data):
        rec = self._begin('upload', name, bytes(data))
        try:
            self._pause(self._latency(rec))
            self._fail_before(rec)
            self._commit(rec, bytes(data))
            self._fail_after(rec)
        finally:
            self._end(rec)

    def upload_stream(self, name, stream, length, chunk_size=128_000):
        rec = self._begin('upload_stream', name)
        try:
            lat = self._latency(rec)
            self._pause(lat / 2)
            self._fail_before(rec)
            parts = []
            while True:
                piece = stream.read(chunk_size)
                if not piece:
                    break
                parts.append(bytes(piece))
                CTX.s.yield_()
            data = b''.join(parts)
            rec['data'] = data
            self._pause(lat / 2)
            self._commit(rec, data)
            self._fail_after(rec)
        finally:
            self._end(rec)

    def download(self, name):
        rec = self._begin('download', name)
        try:
            self._pause(self._latency(rec))
            self._fail_before(rec)
            self._check_available(name)
            try:
                return self.state.objects[name]
            except KeyError:
                raise FileNotFoundError(name) from None
        finally:
            self._end(rec)

    def download_stream(self, name, stream, chunk_size=128_000):
        rec = self._begin('download_stream', name)
        try:
            self._pause(self._latency(rec))
            self._fail_before(rec)
            self._check_available(name)
            try:
                data = self.state.objects[name]
            except KeyError:
                raise FileNotFoundError(name) from None
            stream.truncate(len(data))
            for i in range(0, len(data), chunk_size):
                stream.write(data[i:i + chunk_size])
                CTX.s.yield_()
        finally:
            self._end(rec)

    def list_files(self, prefix=''):
        rec = self._begin('list_files', prefix)
        try:
            self._pause(self._latency(rec))
            self._fail_before(rec)
            names = self._listing(prefix)
        finally:
            self._end(rec)
        return names

    def delete(self, name):
        rec = self._begin('delete', name)
        try:
            self._pause(self._latency(rec))
            self._fail_before(rec)
            self._commit(rec)
            self._fail_after(rec)
        finally:
            self._end(rec)

    def clean(self):
        rec = self._begin('clean', '')
        try:
            self._pause(self._latency(rec))
        finally:
            self._end(rec)

    def close(self):
        rec = self._begin('close', '')
        self._end(rec)


class AsyncSimStore(_Base, Backend):
    flavour = 'async'

    def __init__(self, state, profile):
        self._init(state, profile)

    async def _pause(self, d):
        await asyncio.sleep(d if d > 0 else 0)

    async def exists(self, name):
        rec = self._begin('exists', name)
        try:
            await self._pause(self._latency(rec))
            self._fail_before(rec)
            return self._exists_answer(name)
        finally:
            self._end(rec)

    async def upload(self, name, data):
        rec = self._begin('upload', name, bytes(data))
        try:
            await self._pause(self._latency(rec))
            self._fail_before(rec)
            self._commit(rec, bytes(data))
            self._fail_after(rec)
        finally:
            self._end(rec)

    async def upload_stream(self, name, stream, length, chunk_size=128_000):
        rec = self._begin('upload_stream', name)
        try:
            lat = self._latency(rec)
            await self._pause(lat / 2)
            self._fail_before(rec)
            parts = []
            while True:
                piece = stream.read(chunk_size)
                if not piece:
                    break
                parts.append(bytes(piece))
                await asyncio.sleep(0)
            data = b''.join(parts)
            rec['data'] = data
            await self._pause(lat / 2)
            self._commit(rec, data)
            self._fail_after(rec)
        finally:
            self._end(rec)

    async def download(self, name):
        rec = self._begin('download', name)
        try:
            await self._pause(self._latency(rec))
            self._fail_before(rec)
            self._check_available(name)
            try:
                return self.state.objects[name]
            except KeyError:
                raise FileNotFoundError(name) from None
        finally:
            self._end(rec)

    async def download_stream(self, name, stream, chunk_size=128_000):
        rec = self._begin('download_stream', name)
        try:
            await self._pause(self._latency(rec))
            self._fail_before(rec)
            self._check_available(name)
            try:
                data = self.state.objects[name]
            except KeyError:
                raise FileNotFoundError(name) from None
            stream.truncate(len(data))
            for i in range(0, len(data), chunk_size):
                stream.write(data[i:i + chunk_size])
                await asyncio.sleep(0)
        finally:
            self._end(rec)

    async def list_files(self, prefix=''):
        rec = self._begin('list_files', prefix)
        try:
            await self._pause(self._latency(rec))
            self._fail_before(rec)
            names = self._listing(prefix)
        finally:
            self._end(rec)
        page = self.profile.list_page
        for i, n in enumerate(names):
            if page and i and i % page == 0:
                self.fired['list_next_page'] = self.fired.get('list_next_page', 0) + 1
                await self._pause(self._latency(rec))
            yield n

    async def delete(self, name):
        rec = self._begin('delete', name)
        try:
            await self._pause(self._latency(rec))
            self._fail_before(rec)
            self._commit(rec)
            self._fail_after(rec)
        finally:
            self._end(rec)

    async def clean(self):
        rec = self._begin('clean', '')
        try:
            await self._pause(self._latency(rec))
        finally:
            self._end(rec)

    async def close(self):
        rec = self._begin('close', '')
        self._end(rec)

"""C09  Snapshot and restore do not depend on thread or I/O scheduling."""
import os
from pathlib import Path

from sim import gen, harness, install, store, world
from sim.core import substream

PROP = 'C09'
TECHNIQUE = 'deterministic simulation: seeded schedule search (random/sticky/PCT, line pre-emption, query yields, latencies, stalls, knobs) against a sequential reference run; failure variants'
LEVEL = 'exploration'
RULE = ('one case = init + snapshot + restore of a seeded small tree (many chunks, repeated digests) at '
        'concurrency 1..6 on the plain or coroutine SimStore under one seeded schedule (picking policy, '
        'line pre-emption, early timers, latency profile, optional stalled call, queue/piece knobs) and is '
        'compared with the sequential zero-latency run of the same workload; optionally one backend call '
        'fails. distinct_nontrivial = distinct event-log digests among cases with >= 1 context switch')
COMPONENTS = {
    'real': ['replicat.repository.Repository (snapshot, restore, slots, workers)', 'replicat.utils', 'replicat.utils.adapters',
             'src/adapters.cpp (rebuilt via shim)', 'asyncio.BaseEventLoop'],
    'stub': ['OS thread scheduling (baton)', 'clocks', 'os.urandom', 'object store (SimStore)', 'tqdm disabled'],
}
ASSUMPTIONS = ['pre-emption granularity: replicat source lines and synchronisation primitives',
               'source files do not change during the snapshot']
PROBES = ['target_write_failed', 'queue_full', 'producer_put_timed_out', 'worker_polled_empty', 'exists_true', 'restore_lock_contended',
          'stalled_call', 'fail_injected', 'snapshot_failed_then_restore', 'command_task_cancelled', 'cancel_cancelled']
SHRINK_SEEDS = 16     # a race needs luck again after the workload changed
TIERS = {'quick': {'budget_s': 75, 'batch': 20}, 'thorough': {'budget_s': 900, 'batch': 40}}


def gen_case(seed, tier):
    rng = substream(seed, 'c09-workload')
    mx = rng.choice([8, 16, 16, 32, 64])
    mn = rng.choice([1, 4, 8, mx // 2])
    mn = min(mn, mx)
    settings = {'chunking': {'min_length': mn, 'max_length': mx},
                'hashing': gen.gen_hashing(rng)}
    if rng.random() < 0.5:
        settings['encryption'] = {'cipher': gen.gen_cipher(rng), 'kdf': {'name': 'scrypt', 'n': 2, 'r': 1}}
    else:
        settings['encryption'] = None
    pool = []
    tree = gen.tree_spec(rng, mn=mn, mx=mx, nfiles=rng.choice([1, 2, 2, 3, 4, 6]), max_size=rng.choice([64, 200, 600]),
                         allow_nonutf8=False, pool=pool)
    # at least one non-empty file so that restore has something to schedule
    if all(len(gen.spec_data(e)) == 0 for e in tree):
        tree += gen.tree_spec(rng, mn=mn, mx=mx, nfiles=1, max_size=300, allow_nonutf8=False, pool=pool, min_files=1)
        import base64
        tree[-1]['d'] = base64.b64encode(rng.randbytes(3 * mx + 5)).decode()
    fail = None
    if rng.random() < 0.25:
        fail = {'phase': rng.choice(['snapshot', 'restore', 'restore-target']), 'call': rng.randrange(0, 12),
                'mode': rng.choice(['before', 'before', 'after'])}
    return {
        'seed': seed,
        'sched_seed': seed,
        # the command's task is cancelled (Ctrl-C under asyncio.run, a time-out of the embedding program) after some backend calls
        'cancel': (None if fail else (substream(seed, 'c09-cancel').choice(['snapshot', 'restore']), substream(seed, 'c09-cancel2').randrange(0, 25)))
                  if substream(seed, 'c09-cancel0').random() < 0.1 else None,
        # a failing snapshot immediately followed by a restore through the same Repository object
        'followup': bool(fail) and fail['phase'] == 'snapshot' and substream(seed, 'c09-followup').random() < 0.6,
        'settings': settings,
        'tree': tree,
        'N': rng.choice([1, 1, 2, 2, 3, 4, 6]),
        'flavour': rng.choice(['sync', 'async']),
        'lat_kind': rng.choice(['zero', 'uniform', 'uniform', 'heavy', 'bimodal']),
        'lat': rng.choice([0.001, 0.01, 0.05, 0.3]),
        'stall': rng.choice([None, None, None, rng.randrange(0, 20)]),
        'opts': world.SchedOpts.swarm(rng).as_dict(),
        'knobs': rng.choice([None, None, {'piece': rng.choice([1, 3, 4, 7, 16, 64]), 'qt': rng.choice([0.0001, 0.001, 0.025, 1.0])}]),
        'fail': fail,
        'list_order': rng.choice(['sorted', 'shuffled', 'reversed']),
    }


def _tree_of(target, files):
    got = gen.read_tree(target)
    return {k: v for k, v in got.items()}


def run_followup(case):
    """snapshot #1 succeeds; snapshot #2 (one more file) loses one backend call for good while other calls are in
    flight; the program catches the error and at once restores snapshot #1 through the same Repository object.
    Slots are a promise about transfers outstanding at ANY time, whichever command started them."""
    from pathlib import Path
    viol, probes = [], {'restore_right_after_failed_snapshot': 1}
    W = harness.World(case['sched_seed'], 'c09f', flavour=case['flavour'], lat_kind=case['lat_kind'], lat=case['lat'], list_order=case['list_order'])
    try:
        src = W.dir / 'src'
        gen.materialize(src, case['tree'])
        N = case['N']
        enc = case['settings'].get('encryption') is not None
        client = world.Client('u', password=b'correct horse' if enc else None, concurrent=N)
        seq = world.SchedOpts.sequential()
        zero = lambda: W.profile(lat_kind='zero', list_order='sorted')     # noqa
        r0 = W.init(client, case['settings'], seq, profile=zero())
        s1 = W.snapshot(client, [src], seq, profile=zero())
        for name, rr in (('init', r0), ('snapshot', s1)):
            # a fault-free sequential command has no reason to fail or hang
            if rr.hang is not None:
                viol.append({'cls': 'hang', 'sig': {'phase': name, 'run': 'sequential'}, 'msg': f'sequential fault-free {name} did not terminate: {rr.hang}'})
                return _result(W, viol, probes, case)
            if not rr.ok:
                viol.append({'cls': 'spurious-error', 'sig': {'phase': name, 'run': 'sequential', 'exc': type(rr.exc).__name__},
                             'msg': f'sequential fault-free {name} failed: {rr.outcome()} {rr.exc!r}'})
                return _result(W, viol, probes, case)
        want = gen.read_tree(src)
        rng = substream(case['sched_seed'], 'followup')
        extra = src / 'added-later.bin'
        extra.write_bytes(rng.randbytes(40 * case['settings']['chunking']['max_length'] + 3))
        os.utime(extra, ns=(10**18, 10**18))
        fail = case['fail']
        out_dir = W.dir / 'out'

        async def both(repo):
            got = {}
            try:
                await repo.snapshot(paths=[Path(src)])
                got['snapshot'] = 'ok'
            except store.SimBackendError:
                got['snapshot'] = 'failed'
                # at this very instant: a slot is either in the pool or stands for a call still outstanding
                got['free'], got['outstanding'] = repo._slots.qsize(), repo.backend.inflight_slot
            r = await repo.restore(path=Path(out_dir), snapshot_regex='^' + s1.value['name'] + '$')
            got['files'] = r.files
            return got
        prof = W.profile(fail_call=fail['call'], fail_mode=fail['mode'], lat_cap=60.0)
        r = W.run(client, both, world.SchedOpts.from_dict(case['opts']), profile=prof)
        b = r.backend
        if r.hang is not None:
            viol.append({'cls': 'hang', 'sig': {'phase': 'snapshot+restore'}, 'msg': f'failed snapshot followed by restore did not terminate: {r.hang}'})
            return _result(W, viol, probes, case)
        if r.max_inflight is not None and r.max_inflight > N:
            viol.append({'cls': 'inflight-exceeds', 'sig': {'phase': 'restore-after-failed-snapshot'},
                         'msg': f'{r.max_inflight} slot-limited backend calls outstanding at once with concurrency {N} (a restore started right after a snapshot failed, same Repository object)'})
        if r.repo is not None and r.repo._slots.qsize() != N and not viol:
            viol.append({'cls': 'slots-leaked', 'sig': {'phase': 'restore-after-failed-snapshot', 'failed': bool(r.exc)},
                         'msg': f'{r.repo._slots.qsize()} of {N} slots available after the process quiesced'})
        injected = b is not None and b.failed_call_desc is not None
        if injected:
            probes['fail_injected'] = 1
        if r.exc is not None:
            if not (injected and isinstance(r.exc, store.SimBackendError)):
                viol.append({'cls': 'spurious-error', 'sig': {'phase': 'restore-after-failed-snapshot', 'exc': type(r.exc).__name__},
                             'msg': f'snapshot (one call failing) then restore raised {r.exc!r}'})
        elif not viol:
            got = r.value
            if got.get('snapshot') == 'failed':
                probes['snapshot_failed_then_restore'] = 1
                if got['free'] + got['outstanding'] > N:
                    viol.append({'cls': 'slots-free-while-calls-outstanding', 'sig': {},
                                 'msg': f'when snapshot raised: {got["free"]} slots free and {got["outstanding"]} slot-limited calls still outstanding, concurrency {N}'})
            tree = gen.read_tree(out_dir)
            wantr = {str(harness.restored_path(out_dir, src / k).relative_to(out_dir)): v for k, v in want.items()}
            if tree != wantr and not viol:
                viol.append({'cls': 'tree-differs', 'sig': {'phase': 'restore-after-failed-snapshot'},
                             'msg': 'restore right after a failed snapshot does not reproduce the first snapshot: ' + _tree_diff(tree, wantr)})
        return _result(W, viol, probes, case)
    finally:
        W.close()


def run_cancel(case):
    """The task running snapshot (or restore) is cancelled once the backend has seen k calls: the command ends
    (CancelledError or, if it was faster, its result) within the step and time caps, and every slot comes back."""
    import asyncio
    from pathlib import Path
    viol, probes = [], {'command_task_cancelled': 1}
    phase, k = case['cancel']
    W = harness.World(case['sched_seed'], 'c09c', flavour=case['flavour'], lat_kind=case['lat_kind'], lat=case['lat'], list_order=case['list_order'])
    try:
        src = W.dir / 'src'
        gen.materialize(src, case['tree'])
        extra = src / 'many-chunks.bin'
        extra.write_bytes(substream(case['sched_seed'], 'cancel-data').randbytes(45 * case['N'] * case['settings']['chunking']['max_length']))
        os.utime(extra, ns=(10**18, 10**18))
        N = case['N']
        enc = case['settings'].get('encryption') is not None
        client = world.Client('u', password=b'correct horse' if enc else None, concurrent=N)
        seq = world.SchedOpts.sequential()
        zero = lambda: W.profile(lat_kind='zero', list_order='sorted')     # noqa
        r0 = W.init(client, case['settings'], seq, profile=zero())
        if phase == 'restore':
            s1 = W.snapshot(client, [src], seq, profile=zero())
        for name, rr in (('init', r0),) + ((('snapshot', s1),) if phase == 'restore' else ()):
            if not rr.ok:
                viol.append({'cls': 'spurious-error' if rr.hang is None else 'hang', 'sig': {'phase': name, 'run': 'sequential'},
                             'msg': f'sequential fault-free {name} failed: {rr.outcome()} {rr.exc or rr.hang!r}'})
                return _result(W, viol, probes, case)

        async def act(repo):
            if phase == 'snapshot':
                t = asyncio.ensure_future(repo.snapshot(paths=[Path(src)]))
            else:
                t = asyncio.ensure_future(repo.restore(path=Path(W.dir / 'out')))
            pause = 0.0002
            while repo.backend.calls < k and not t.done():
                await asyncio.sleep(pause)
                pause = min(pause * 1.5, 0.5)       # (a stalled backend call must not turn this loop into the step cap)
            if t.done():
                await t
                return 'completed'
            t.cancel()
            try:
                await t
                return 'completed'
            except asyncio.CancelledError:
                return 'cancelled'
        r = W.run(client, act, world.SchedOpts.from_dict(case['opts']), profile=W.profile(lat_cap=60.0))
        if r.hang is not None:
            viol.append({'cls': 'hang', 'sig': {'phase': phase, 'cancelled': True}, 'msg': f'{phase} cancelled after {k} backend calls did not terminate: {r.hang}'})
        elif r.exc is not None:
            viol.append({'cls': 'spurious-error', 'sig': {'phase': phase, 'cancelled': True, 'exc': type(r.exc).__name__},
                         'msg': f'{phase} cancelled after {k} backend calls raised {r.exc!r}'})
        else:
            probes['cancel_' + r.value] = 1
            if r.repo is not None and r.repo._slots.qsize() != N:
                viol.append({'cls': 'slots-leaked', 'sig': {'phase': phase, 'cancelled': True},
                             'msg': f'{r.repo._slots.qsize()} of {N} slots available after the cancelled {phase} and the end of the process'})
        return _result(W, viol, probes, case)
    finally:
        W.close()


def run_case(case):
    if case.get('cancel'):
        return run_cancel(case)
    if case.get('followup'):
        return run_followup(case)
    viol = []
    probes = {}
    W = harness.World(case['sched_seed'], 'c09', flavour=case['flavour'], lat_kind=case['lat_kind'],
                      lat=case['lat'], list_order=case['list_order'])
    try:
        files = gen.materialize(W.dir / 'src', case['tree'])
        N = case['N']
        enc = case['settings'].get('encryption') is not None
        client = world.Client('u', password=b'correct horse' if enc else None, concurrent=N)
        seq = world.SchedOpts.sequential()
        r0 = W.init(client, case['settings'], seq, profile=W.profile(lat_kind='zero'))
        if not r0.ok:
            raise RuntimeError(f'init failed in harness: {r0.outcome()} {r0.exc!r}')
        opts = world.SchedOpts.from_dict(case['opts'])
        knobs = case.get('knobs')
        # one stalled call lasts ~1000 polling periods (bounded step count whatever the knob)
        stall_time = 1000 * (knobs['qt'] if knobs else 0.025)
        # ... and latencies keep their ratio to the polling period (a 40 s call polled every 0.1 ms is 400 000 steps)
        scale = (knobs['qt'] / 0.025) if knobs and knobs['qt'] < 0.025 else 1.0
        W.lat = case['lat'] * scale
        lat_cap = 60.0 * scale
        fail = case.get('fail')

        # ---- sequential reference (own copy of the store, zero latency, no pre-emption)
        ref_state = W.state.copy()
        ref_env = install.Env(case['sched_seed'] ^ 0x5EF)
        W_env = W.env
        W.env = ref_env
        # same read-piece size as the explored run: chunks in the tail zone may legitimately
        # depend on how the stream is delivered in pieces (C10), but never on the schedule
        if knobs:
            install.set_snapshot_knobs(knobs['piece'], None)
        try:
            ref_snap = W.snapshot(client, [W.dir / 'src'], seq, profile=W.profile(lat_kind='zero', list_order='sorted'), state=ref_state)
        finally:
            install.set_snapshot_knobs(None, None)
        ref_rest = None
        if ref_snap.ok:
            ref_rest = W.restore(client, W.dir / 'ref_out', seq, profile=W.profile(lat_kind='zero', list_order='sorted'), state=ref_state)
        W.env = W_env
        W.digests.clear()
        W.fired.clear()
        for phase, rr in (('snapshot', ref_snap), ('restore', ref_rest)):
            if rr is not None and rr.exc is not None:
                # a fault-free backup / restore of a valid tree has no reason to fail under any schedule,
                # the sequential one included
                viol.append({'cls': 'spurious-error', 'sig': {'phase': phase, 'exc': type(rr.exc).__name__, 'run': 'sequential'},
                             'msg': f'{phase}: the sequential fault-free run raised {rr.exc!r}'})
                return _result(W, viol, probes, case)
        if ref_snap.hang is not None or (ref_rest is not None and ref_rest.hang is not None):
            viol.append({'cls': 'hang', 'sig': {'phase': 'reference'},
                         'msg': f'sequential reference run did not terminate: {ref_snap.hang or ref_rest.hang}'})
            return _result(W, viol, probes, case)

        # ---- explored schedule
        if knobs:
            if not install.set_snapshot_knobs(knobs['piece'], knobs['qt']):
                probes['knobs_unavailable'] = 1
        try:
            prof = W.profile(stall_call=case.get('stall'), stall_time=stall_time, lat_cap=lat_cap,
                             fail_call=fail['call'] if fail and fail['phase'] == 'snapshot' else None,
                             fail_mode=fail['mode'] if fail else 'before')
            snap = W.snapshot(client, [W.dir / 'src'], opts, profile=prof)
        finally:
            install.set_snapshot_knobs(None, None)
        b = snap.backend
        injected = b is not None and b.failed_call_desc is not None
        _common(viol, 'snapshot', snap, N, injected, ref_snap, probes)
        c = (snap.stats or {}).get('counters', {})
        for probe, key in (('queue_full', 'queue_full'), ('producer_put_timed_out', 'queue_put_timeout'),
                           ('worker_polled_empty', 'queue_get_timeout')):
            if c.get(key):
                probes[probe] = 1
        if b is not None:
            if b.counts.get('exists', 0) > len(b.uploads):
                probes['exists_true'] = 1
        if snap.ok and ref_snap.ok:
            m, mr = harness.manifest(snap.value), harness.manifest(ref_snap.value)
            if m != mr:
                viol.append({'cls': 'manifest-differs', 'sig': {},
                             'msg': 'snapshot manifest differs from the sequential run: ' + _mdiff(m, mr)})
        if snap.ok and not viol:
            prof = W.profile(stall_call=case.get('stall'), stall_time=stall_time, lat_cap=lat_cap,
                             fail_call=fail['call'] if fail and fail['phase'] == 'restore' else None,
                             fail_mode='before')
            target_fault = None
            if fail and fail['phase'] == 'restore-target':
                target_fault = _TargetWriteFault(fail['call'])
            try:
                rest = W.restore(client, W.dir / 'out', opts, profile=prof)
            finally:
                if target_fault is not None:
                    target_fault.remove()
            b = rest.backend
            injected = b is not None and b.failed_call_desc is not None
            if (rest.stats or {}).get('counters', {}).get('lock_contended'):
                probes['restore_lock_contended'] = 1
            if target_fault is not None and target_fault.fired:
                probes['target_write_failed'] = 1
                if rest.hang is not None:
                    viol.append({'cls': 'hang', 'sig': {'phase': 'restore', 'kind': type(rest.hang).__name__}, 'msg': f'restore did not terminate: {rest.hang}'})
                elif rest.exc is None:
                    viol.append({'cls': 'failure-swallowed', 'sig': {'phase': 'restore-target'},
                                 'msg': f'write #{fail["call"]} into a restored file failed with EIO but restore reported success'})
                elif not isinstance(rest.exc, OSError):
                    viol.append({'cls': 'wrong-error', 'sig': {'phase': 'restore-target', 'exc': type(rest.exc).__name__},
                                 'msg': f'a write into a restored file failed with EIO, restore raised {rest.exc!r}'})
                if rest.repo is not None and rest.repo._slots.qsize() != N and not viol:
                    viol.append({'cls': 'slots-leaked', 'sig': {'phase': 'restore', 'failed': True},
                                 'msg': f'{rest.repo._slots.qsize()} of {N} slots available after the failed restore'})
                return _result(W, viol, probes, case)
            _common(viol, 'restore', rest, N, injected, ref_rest, probes)
            if rest.ok and ref_rest is not None and ref_rest.ok:
                got, ref = gen.read_tree(W.dir / 'out'), gen.read_tree(W.dir / 'ref_out')
                if got != ref:
                    viol.append({'cls': 'tree-differs', 'sig': {},
                                 'msg': 'restored tree differs from the sequential run: ' + _tree_diff(got, ref)})
                if sorted(rest.value['files']) != sorted(ref_rest.value['files']):
                    viol.append({'cls': 'tree-differs', 'sig': {'what': 'file-list'},
                                 'msg': f'restore().files differs: {rest.value["files"]} vs {ref_rest.value["files"]}'})
        return _result(W, viol, probes, case)
    finally:
        W.close()


class _TargetWriteFault:
    """The k-th write into a restored file fails (EIO): the disk under the restore target, not the backend."""

    def __init__(self, k):
        import errno
        import replicat.repository as R
        self.R, self.k, self.n, self.fired = R, k, 0, False
        self.orig = R.Repository._write_file_part
        fault = self

        def _write_file_part(repo, path, data, offset):
            i = fault.n
            fault.n += 1
            if i == fault.k:
                fault.fired = True
                raise OSError(errno.EIO, 'Input/output error (injected)', str(path))
            return fault.orig(repo, path, data, offset)
        R.Repository._write_file_part = _write_file_part

    def remove(self):
        self.R.Repository._write_file_part = self.orig


def _common(viol, phase, r, N, injected, ref, probes):
    b = r.backend
    if injected:
        probes['fail_injected'] = 1
    if r.hang is not None:
        viol.append({'cls': 'hang', 'sig': {'phase': phase, 'kind': type(r.hang).__name__},
                     'msg': f'{phase} did not terminate: {r.hang}'})
        return
    if r.max_inflight is not None and r.max_inflight > N:
        viol.append({'cls': 'inflight-exceeds', 'sig': {'phase': phase},
                     'msg': f'{phase}: {r.max_inflight} slot-limited backend calls outstanding with concurrency {N}'})
    if r.repo is not None and r.repo._slots.qsize() != N:
        viol.append({'cls': 'slots-leaked', 'sig': {'phase': phase, 'failed': bool(r.exc)},
                     'msg': f'{phase}: {r.repo._slots.qsize()} of {N} slots available after the command '
                            f'({"raised " + repr(r.exc) if r.exc else "returned"}) and the process quiesced'})
    if injected:
        if r.exc is None:
            # a lost acknowledgement / failed call must surface as an error of the command
            viol.append({'cls': 'failure-swallowed', 'sig': {'phase': phase},
                         'msg': f'{phase}: backend call {b.failed_call_desc} failed for good but the command returned normally'})
        elif not isinstance(r.exc, store.SimBackendError):
            viol.append({'cls': 'wrong-error', 'sig': {'phase': phase, 'exc': type(r.exc).__name__},
                         'msg': f'{phase}: backend call {b.failed_call_desc} failed, command raised {r.exc!r} instead of that error'})
    else:
        ref_exc = type(ref.exc).__name__ if ref is not None and ref.exc is not None else None
        got_exc = type(r.exc).__name__ if r.exc is not None else None
        if got_exc != ref_exc:
            viol.append({'cls': 'spurious-error', 'sig': {'phase': phase, 'exc': got_exc},
                         'msg': f'{phase}: sequential run -> {ref_exc}, this schedule -> {r.exc!r}'})


def _mdiff(m, mr):
    out = []
    if m['chunks'] != mr['chunks']:
        out.append(f'chunk table: got {len(m["chunks"])} ref {len(mr["chunks"])} entries')
    for k in sorted(set(m['files']) | set(mr['files'])):
        if m['files'].get(k) != mr['files'].get(k):
            out.append(f'{k!r}: got {m["files"].get(k)} ref {mr["files"].get(k)}')
    return '; '.join(out)[:2500]


def _short(m):
    return repr(m)[:700]


def _tree_diff(a, b):
    out = []
    for k in sorted(set(a) | set(b)):
        if a.get(k) != b.get(k):
            x, y = a.get(k), b.get(k)
            out.append(f'{k!r}: got {None if x is None else (len(x[0]), x[0][:24], x[1])} ref {None if y is None else (len(y[0]), y[0][:24], y[1])}')
    return '; '.join(out)[:1200]


def _result(W, viol, probes, case):
    fired = dict(W.fired)
    if fired.get('stall'):
        probes['stalled_call'] = 1
    return {'violations': viol, 'digest': W.digest(), 'nontrivial': W.switches > 0, 'fired': fired,
            'probes': probes, 'sim_s': W.sim_s, 'steps': W.sim_steps,
            'sample': {'N': case['N'], 'flavour': case['flavour'], 'files': [(e['p'], len(gen.spec_data(e))) for e in case['tree']],
                       'chunking': case['settings']['chunking'], 'opts': case['opts'], 'lat': [case['lat_kind'], case['lat']],
                       'fail': case['fail'], 'knobs': case['knobs'], 'steps': W.sim_steps}}


def shrink(case):
    import copy
    # fewer files
    for i in range(len(case['tree'])):
        if len(case['tree']) > 1:
            c = copy.deepcopy(case)
            del c['tree'][i]
            yield c
    # smaller files
    import base64
    for i, e in enumerate(case['tree']):
        d = gen.spec_data(e)
        if len(d) > 8:
            for cut in (len(d) // 2, len(d) - 4):
                c = copy.deepcopy(case)
                c['tree'][i]['d'] = base64.b64encode(d[:cut]).decode()
                yield c
    for k, v in (('stall', None), ('knobs', None), ('fail', None), ('lat_kind', 'zero'), ('list_order', 'sorted')):
        if case.get(k) != v:
            c = copy.deepcopy(case)
            c[k] = v
            yield c
    if case['N'] > 1:
        c = copy.deepcopy(case)
        c['N'] = case['N'] - 1
        yield c
    if case['settings'].get('encryption') is not None:
        c = copy.deepcopy(case)
        c['settings']['encryption'] = None
        yield c
    o = case['opts']
    for k, v in (('timer_p', 0.0), ('preempt_p', 0.0)):
        if o.get(k):
            c = copy.deepcopy(case)
            c['opts'][k] = v
            yield c

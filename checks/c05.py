"""C05  An encrypted repository reveals no plaintext at rest."""
from sim import history

PROP = 'C05'
TECHNIQUE = 'deterministic simulation: invariant monitor on every byte and name written at rest (needle search, structure, nonce freshness) over seeded histories incl. eventually consistent store'
LEVEL = 'exploration'
RULE = ('[users are processes per command or long-lived programs that keep one Repository object across commands] one case = a seeded history (init, add-key shared/independent/clone, snapshots with notes, delete, clean) on an encrypted '
        'repository (both ciphers, all key sizes, several nonce sizes, all hashes); a monitor records every byte uploaded, every '
        'object name, every emitted key file and the stdout of init/add-key; oracle: no canary (path component, note, password, '
        'metadata integers, 12-byte content windows), no chunk/file digest and no key secret occurs raw, hex or base64 (3 alignments) '
        'anywhere outside ciphertext; every chunk is nonce||AEAD under KDF(shared key, digest); snapshot objects are exactly two '
        'byte strings; key files contain only kdf, kdf_params and the encrypted private section; names are the documented MACs; '
        'no two ciphertexts under one key (user key: key files and every snapshot of that user, across all processes of the history) share '
        'a nonce; nonces that did not come from the simulated system RNG are counted as a probe. '
        'distinct_nontrivial = distinct event-log digests among histories with >= 1 snapshot')
COMPONENTS = {
    'real': ['replicat.repository.Repository (init, add_key, snapshot, delete, clean)', 'replicat.utils.adapters (AEAD, MAC, KDF adapters)', 'cryptography AEAD'],
    'stub': ['OS thread scheduling', 'clocks', 'os.urandom (seeded stream, logged)', 'object store (SimStore, payload log)'],
    'reference': ['sim/ref_format.py'],
}
ASSUMPTIONS = ['needles of >= 10 bytes; shorter file names are covered by the fixed path component every recorded path contains',
               'algorithm settings in config are public by design']
PROBES = ['delete', 'clean', 'nonces', 'needles', 'exists_lied', 'foreign_unencrypted_repository_in_cache', 'addkey_output_file_existing', 'cli_add_key', 'cli_verbose']
TIERS = {'quick': {'budget_s': 70, 'batch': 10}, 'thorough': {'budget_s': 900, 'batch': 20}}
ORACLES = ('store', 'secrecy')


def gen_case(seed, tier):
    import base64
    from sim.core import substream
    case = history.gen_history(seed, 'c05', encrypted=True, nops=(3, 9), destructive=True, reads=False)
    rng = substream(seed, 'c05-extra')
    if rng.random() < 0.5:
        # an eventually consistent backend: exists() may deny an object that was just stored
        case['exists_lies_p'] = rng.choice([0.05, 0.2, 0.5])
    if rng.random() < 0.4:
        # the same block twice in one stream, far apart (fixed-size chunks so that both copies are whole chunks)
        mx = rng.choice([16, 32, 64])
        case['settings']['chunking'] = {'min_length': mx, 'max_length': mx}
        block = rng.randbytes(mx)
        k = rng.choice([12, 25, 45])
        body = block + b''.join(rng.randbytes(mx) for _ in range(k)) + block + rng.randbytes(rng.randrange(0, mx))
        case['contents'][rng.randrange(len(case['contents']))] = base64.b64encode(body).decode()
        for u in case['users']:
            u['N'] = rng.choice([1, 1, 2])
    case['foreign_cache'] = substream(seed, 'c05-cache').random() < 0.3
    case['key_output'] = substream(seed, 'c05-keyout').random() < 0.3
    case['cli'] = substream(seed, 'c05-cli-on').random() < 0.25
    return case


def _foreign_cache(H):
    """Everybody uses one cache directory, and another - unencrypted - repository of the same
    account has been used with it after ours was created."""
    import os
    from sim import harness, world
    W, case = H.W, H.case
    cache = str(W.dir / 'cache-shared')
    W2 = harness.World(case['sched_seed'] ^ 0x5555, 'c05b', flavour=case['flavour'], lat_kind='zero', scratch=False)
    W2.dir = W.dir
    c2 = world.Client('other', password=None, concurrent=1, cache_dir=cache)
    settings2 = {'chunking': dict(case['settings']['chunking']), 'hashing': case['settings'].get('hashing'), 'encryption': None}
    settings2 = {k: v for k, v in settings2.items() if v is not None or k == 'encryption'}
    r = W2.init(c2, settings2, world.SchedOpts.sequential())
    if not r.ok:
        raise RuntimeError(f'second repository: init failed in harness: {r.outcome()} {r.exc!r}')
    src2 = W.dir / 'src-other'
    src2.mkdir()
    (src2 / 'o.bin').write_bytes(b'other repository data' * 3)
    os.utime(src2 / 'o.bin', ns=(10**18, 10**18))
    W2.snapshot(c2, [src2], world.SchedOpts.sequential())
    W2.list_snapshots(c2, world.SchedOpts.sequential())
    for c in H.clients:
        c.cache_dir = cache
    H.probe('foreign_unencrypted_repository_in_cache')


def _cli_add_key(H):
    """add-key through replicat's real command-line entry point, with raised verbosity and optionally -o:
    what it prints on stdout is an observation point like any other."""
    from sim import cli
    from sim.core import substream
    W, case = H.W, H.case
    rng = substream(case['sched_seed'], 'c05-cli')
    owner = H.clients[0]
    kf = W.dir / 'owner.key'
    kf.write_bytes(owner.key)
    argv = ['add-key', '-r', 'simstore:universe', '-q', '--no-cache', '-c', '2', '-p', owner.password.decode(), '-K', kf,
            '-n', 'cli ' + owner.password.decode()[::-1]]
    argv += rng.choice([[], ['--shared'], ['--clone']])
    if '--clone' in argv:
        del argv[argv.index('-n'):argv.index('-n') + 2]
    argv += rng.choice([['-v'], ['-vv'], ['-vv'], []])
    out = None
    if rng.random() < 0.5:
        out = W.dir / 'cli-new.key'
        argv += ['-o', out]
    argv += ['--encryption.kdf.name', 'scrypt', '--encryption.kdf.n', '4']     # (the shipped scrypt work factor takes seconds)
    r = cli.run_cli(W, argv)
    if r.status != 'ok':
        raise RuntimeError(f'CLI add-key failed in harness: {r.status} {r.exc!r} {r.stderr[-300:]}')
    H.stdouts.append(('add-key via the CLI (' + ' '.join(a for a in map(str, argv) if a.startswith('-')) + ')', r.stdout))
    if out is not None and out.exists():
        H.extra_outputs.append(('key file written by the CLI', out.read_bytes()))
    H.probe('cli_add_key')
    if '-v' in argv or '-vv' in argv:
        H.probe('cli_verbose')


def run_case(case):
    H = history.History(case, 'c05', ORACLES)
    steps = []
    if case.get('foreign_cache'):
        steps.append(_foreign_cache)
    if case.get('cli'):
        steps.append(_cli_add_key)
    if steps:
        H.post_setup = lambda h: [f(h) for f in steps]
    return H.run()


def shrink(case):
    return history.shrink_history(case)

"""C12  Transient backend faults are masked and persistent ones end in a bounded error."""
import copy
import io
import os

from sim import core, fakes, fsseam, install, world
from sim.core import substream
from sim.install import CTX

PROP = 'C12'
TECHNIQUE = 'deterministic simulation with fault injection: enumeration of fault kind x position x count per adapter call (FS seam, FakeS3, FakeB2), concurrent token expiry, end-to-end commands over faulty services'
LEVEL = 'fault_enumeration'
RULE = ('one case = (adapter in {Local on the FS seam, S3Compatible on FakeS3, B2 on FakeB2}, operation in {exists, upload, upload_stream, download, '
        'download_stream, list_files, delete}, payload of 0..4 stream chunks +- 1 byte, pre-existing object or not), transferred through the '
        'wrapper chain the commands use (BytesIO -> RateLimitedIO.wrap -> TQDMIOReader/Writer). For the case ALL fault placements are '
        'enumerated: local: every syscall of the fault-free run x {EIO, EACCES, ENOSPC short write, parent directory removed (mktemp), ENOENT on a nested scandir} x consecutive count {1, 2, 4, 5, '
        'persistent}; HTTP: every request kind of the fault-free run x {ConnectError, ReadError, WriteError, 500, 503, 429, 429+retry-after, 401 '
        'expired (B2), 403} x position {before the first byte, after body chunk 1..k (upload and download), after the last byte with the '
        'response lost} x count {1, 2, 3, persistent}. Oracle: if the call returns, the stored / returned bytes are exactly the intended ones '
        '(download targets hold exactly the object, nothing of an earlier attempt); if the faults stay within the declared retry budget '
        'an upload or download must return (other operations may return the right answer or raise); a failed upload leaves the old or the new object, never a partial one; persistent faults raise after a '
        'bounded number of requests (local <= 8 attempts, S3 <= 8 x the fault-free count, B2 <= 150: its three nested retry levels multiply) within one simulated hour; 403 is not retried. '
        'evaluations = fault placements run; distinct_nontrivial = distinct (adapter, op, fault kind, position class, count, outcome)')
COMPONENTS = {
    'real': ['replicat.backends.local.Local', 'replicat.backends.s3c.S3Compatible', 'replicat.backends.b2.B2', 'replicat.utils.requires_auth', 'backoff (sync and async)',
             'replicat.utils.RateLimitedIO / TQDMIO wrappers', 'httpx client stack above the transport'],
    'stub': ['file-system syscalls (seam with injected errno / short writes)', 'FakeS3 / FakeB2 (faults placed before, inside and after transfers)', 'clocks, back-off jitter'],
}
ASSUMPTIONS = ['declared budgets: local 5 tries; s3c 4 tries, 403 not retried; b2 4 tries for transport errors and 429, 1 + MAX_REAUTH_ATTEMPTS attempts for other statuses',
               'stray temporary files after a failed local upload are recorded as a probe, not judged']
PROBES = ['list_ok_with_error_body', 'e2e', 'e2e_fault_fired', 'concurrent_expiry', 'masked', 'persistent_raised', 'gray_zone', 'rewound_partial_stream', 'lost_response', 'mid_upload', 'mid_download', 'b2_reauth', 'retry_after_honoured']
TIERS = {'quick': {'budget_s': 60, 'batch': 4}, 'thorough': {'budget_s': 900, 'batch': 8}}

OPS = ['exists', 'upload', 'upload_stream', 'download', 'download_stream', 'list_files', 'delete']
TRANSFER_OPS = ('upload', 'upload_stream', 'download', 'download_stream')


def gen_case(seed, tier):
    rng = substream(seed, 'c12')
    if rng.random() < 0.12:
        # the real snapshot + restore over a real HTTP adapter whose service injects transient faults within the budgets
        adapter = rng.choice(['s3', 'b2'])
        kinds = ['connect', 'read', 'write', 'status:500', 'status:503', 'status:429'] + (['status:401'] if adapter == 'b2' else [])
        ops = ['put', 'get', 'head', 'list', 'delete'] if adapter == 's3' else ['upload', 'download', 'head', 'list_file_names', 'get_upload_url', 'list_buckets', 'hide_file']
        faults = [{'kind': rng.choice(kinds), 'op': rng.choice(ops), 'count': rng.choice([1, 1, 2]), 'skip': rng.randrange(0, 6),
                   'after_chunks': rng.choice([None, None, 1, 2]), 'lost_response': rng.random() < 0.2, 'code': None} for _ in range(rng.randrange(1, 4))]
        for f in faults:
            if f['kind'].startswith('status:'):
                f['after_chunks'] = None
        # "within the retry budget" is a statement about ONE adapter call, and several requests (and so several of these
        # faults) can belong to one call: keep the total below the smallest budget (B2: 1 + 2 re-authorisations, S3: 4 tries)
        limit = 2 if adapter == 'b2' else 3
        total = 0
        kept = []
        for f in faults:
            f['count'] = min(f['count'], limit - total)
            if f['count'] > 0:
                kept.append(f)
                total += f['count']
        faults = kept
        from sim import gen as _gen
        tree = _gen.tree_spec(rng, mn=8, mx=64, nfiles=rng.choice([1, 2, 3]), max_size=400, allow_nonutf8=False, min_files=1)
        return {'seed': seed, 'sched_seed': seed, 'kind': 'e2e', 'adapter': adapter, 'op': 'snapshot+restore', 'faults': faults, 'tree': tree,
                'N': rng.choice([1, 2, 3]), 'encrypted': rng.random() < 0.5, 'page': rng.choice([1, 2, 1000]), 'lat': rng.choice([0.0, 0.01]),
                'opts': world.SchedOpts.swarm(rng).as_dict(), 'size': 0, 'chunk': 1}
    if rng.random() < 0.2:
        # several concurrent calls on one B2 adapter while the authorisation expires once
        k = rng.choice([2, 3, 4])
        return {'seed': seed, 'sched_seed': seed, 'kind': 'concurrent', 'adapter': 'b2', 'op': 'mixed',
                'calls': [{'op': rng.choice(['upload_stream', 'upload_stream', 'upload', 'download', 'exists', 'list_files']),
                           'size': rng.choice([0, 5, 40, 200]), 'chunk': rng.choice([3, 16, 64])} for _ in range(k)],
                'expire_after': rng.randrange(1, 12), 'authorize_latency': rng.choice([0.0, 0.05, 0.3, 2.0]), 'lat': rng.choice([0.0, 0.01, 0.1]),
                'opts': world.SchedOpts.swarm(rng).as_dict(), 'size': 0, 'chunk': 1}
    chunk = rng.choice([1, 3, 16, 64])
    k = rng.choice([0, 1, 2, 3, 4])
    size = max(0, k * chunk + rng.choice([-1, 0, 0, 1]))
    return {'seed': seed, 'sched_seed': seed, 'adapter': rng.choice(['local', 's3', 's3', 'b2', 'b2']), 'op': rng.choice(OPS), 'chunk': chunk, 'size': size,
            'preexisting': rng.random() < 0.6, 'old_size': rng.choice([0, 5, 200]), 'page': rng.choice([1, 2, 1000]), 'others': rng.randrange(0, 4),
            'rate_limited': rng.random() < 0.5, 'opts': world.SchedOpts.swarm(rng, timer_p=0.0).as_dict(), 'max_points': 90 if tier == 'quick' else 400,
            # a slow link: every request takes up to this many (simulated) seconds
            'svc_lat': substream(seed, 'c12-slow').choice([0.0, 0.0, 0.0, 150.0]),
            'old_same_length': substream(seed, 'c12-samelen').random() < 0.3}


NAME = 'data/ab/cd/object-name'


def _chain_reader(data, rate_limited):
    import replicat.utils as U
    raw = io.BytesIO(data)
    s = U.RateLimitedIO(10**12).wrap(raw) if rate_limited else raw
    return raw, U.TQDMIOReader(s, desc='x', total=len(data), position=0, disable=True)


def _chain_writer(rate_limited):
    import replicat.utils as U
    raw = io.BytesIO(b'stale bytes from an earlier attempt ' * 4)
    s = U.RateLimitedIO(10**12).wrap(raw) if rate_limited else raw
    return raw, U.TQDMIOWriter(s, desc='x', total=None, position=0, disable=True)


async def do_op(backend, case, data):
    """Run the operation once; returns ('ok', value) / ('raised', exc)."""
    import inspect
    op = case['op']

    async def call(name, *a):
        f = getattr(backend, name)
        if inspect.isasyncgenfunction(f):
            return [x async for x in f(*a)]
        r = f(*a)
        if inspect.isawaitable(r):
            r = await r
        return r
    try:
        if op == 'exists':
            return 'ok', await call('exists', NAME)
        if op == 'upload':
            return 'ok', await call('upload', NAME, data)
        if op == 'upload_stream':
            raw, st = _chain_reader(data, case['rate_limited'])
            return 'ok', await call('upload_stream', NAME, st, len(data), case['chunk'])
        if op == 'download':
            return 'ok', bytes(await call('download', NAME))
        if op == 'download_stream':
            raw, st = _chain_writer(case['rate_limited'])
            await call('download_stream', NAME, st, case['chunk'])
            return 'ok', raw.getvalue()
        if op == 'list_files':
            r = await call('list_files', 'data/')
            return 'ok', sorted(r)
        if op == 'delete':
            return 'ok', await call('delete', NAME)
    except fakes.BudgetExceeded as e:
        return 'unbounded', e
    except core.SimAbort:
        raise
    except RecursionError as e:
        return 'unbounded', e
    except Exception as e:  # noqa
        return 'raised', e


def run_one(case, plan, seed_extra):
    """One simulated process: build the adapter, pre-populate, apply the fault plan, run the op."""
    install.install_once()
    env = install.Env(case['sched_seed'] * 1000 + seed_extra)
    prng = substream(case['sched_seed'], 'payload')
    new = prng.randbytes(case['size'])
    old = prng.randbytes(case['old_size']) if case['preexisting'] else None
    if case['preexisting'] and case.get('old_same_length') and case['size']:
        # an object of the same name and exactly the same length, other contents (a file rewritten in place)
        old = bytes(b ^ 0x55 for b in new)
    others = {f'data/zz/{i:02d}/other-{i}': prng.randbytes(7 + i) for i in range(case['others'])}
    out = {}
    d = world.scratch_dir('c12', case['sched_seed'])
    try:
        async def main(res):
            adapter = case['adapter']
            if adapter == 'local':
                root = d / 'repo'
                root.mkdir(exist_ok=True)
                for n, v in list(others.items()) + ([(NAME, old)] if old is not None else []):
                    p = root / n
                    p.parent.mkdir(parents=True, exist_ok=True)
                    p.write_bytes(v)
                fs = fsseam.FS()
                for f in plan:
                    fs.fail_next(f['kind'], f['err'], f['count'] if f['count'] is not None else 10**9, f['skip'])
                backend = fsseam.make_local(root, fs)
                out['fs'] = fs
                svc = None
            elif adapter == 's3':
                svc = fakes.FakeS3(bucket='bkt', key_id='AKID', secret='secret/key+1', region='us-east-1', host='s3.fake.test',
                                   page_size=case['page'], faults=[fakes.Fault.from_dict(f) for f in plan], request_budget=40, latency=case.get('svc_lat', 0.0))
                svc.objects.update(others)
                if old is not None:
                    svc.objects[NAME] = old
                backend = fakes.make_s3(svc)
            else:
                svc = fakes.FakeB2(bucket_name='bkt', bucket_id='bid', key_id='kid', application_key='akey', restricted=case['size'] % 2 == 0,
                                   page_size=case['page'], faults=[fakes.Fault.from_dict(f) for f in plan], request_budget=250, latency=case.get('svc_lat', 0.0))
                for n, v in list(others.items()) + ([(NAME, old)] if old is not None else []):
                    svc.versions[n] = [('upload', v, 'seed-' + n)]
                backend = fakes.make_b2(svc)
            out['svc'] = svc
            t0 = CTX.s.now
            out['result'] = await do_op(backend, case, new)
            out['elapsed'] = CTX.s.now - t0
            if svc is not None:
                out['requests'] = list(svc.requests)
                out['objects'] = dict(svc.objects)
                out['counters'] = dict(svc.counters)
                try:
                    await backend.close()
                except Exception:  # noqa
                    pass
            else:
                root = d / 'repo'
                objs = {}
                stray = []
                for dp, dn, fn in os.walk(root):
                    for f in fn:
                        p = os.path.join(dp, f)
                        rel = os.path.relpath(p, root)
                        if rel.endswith('.tmp'):
                            stray.append(rel)
                        else:
                            objs[rel] = open(p, 'rb').read()
                out['objects'] = objs
                out['stray'] = stray
                out['syscalls'] = list(out['fs'].log)
                out['counters'] = dict(out['fs'].fired)
        opts = world.SchedOpts.from_dict(case['opts'])
        opts.time_cap = 4000.0 + 300 * case.get('svc_lat', 0.0)     # on a slow link the bounded number of attempts simply takes longer
        r = world.run_process(env, main, opts)
        out['proc'] = r
        out['old'], out['new'], out['others'] = old, new, others
        return out
    finally:
        CTX.fs = None
        world.remove_scratch(d)


def masked_budget(adapter, kind):
    """How many consecutive faults of this kind the declared retry policy absorbs (None: never retried)."""
    if adapter == 'local':
        return 4
    if kind.startswith('status:403'):
        return 0
    if adapter == 's3':
        return 3
    if kind in ('connect', 'read', 'write', 'timeout') or kind.startswith('status:429'):
        return 3
    return 2      # B2: other statuses go through re-authentication, 1 + MAX_REAUTH_ATTEMPTS attempts


def expected_value(case, out):
    op = case['op']
    old, new, others = out['old'], out['new'], out['others']
    if op == 'exists':
        return old is not None
    if op in ('upload', 'upload_stream', 'delete'):
        return None
    if op in ('download', 'download_stream'):
        return old
    return sorted(list(others) + ([NAME] if old is not None else []))


def judge(case, plan, out, base_requests, viol, probes, label):
    adapter, op = case['adapter'], case['op']
    r = out['proc']
    sig = {'adapter': adapter, 'op': op, 'fault': plan[0]['kind'] if plan else None, 'count': plan[0]['count'] if plan else 0,
           'pos': _pos(plan[0]) if plan else None}
    if r.hang is not None or r.exc is not None or 'result' not in out:
        viol.append({'cls': 'hang', 'sig': sig, 'msg': f'{label}: the call did not finish within the simulated hour / step cap: {r.hang or r.exc!r}'})
        return
    status, val = out['result']
    old, new = out['old'], out['new']
    objs = out['objects']
    cur = objs.get(NAME)
    want = expected_value(case, out)
    missing_is_error = op in ('download', 'download_stream') and old is None
    # ---- state of the object: never partial
    if op in ('upload', 'upload_stream'):
        allowed = [new] if status == 'ok' else [old, new]
        if cur not in allowed:
            viol.append({'cls': 'object-corrupted', 'sig': sig, 'msg': f'{label}: call {status}; stored object is {None if cur is None else len(cur)} bytes, '
                         f'neither the old ({None if old is None else len(old)}) nor the intended ({len(new)}) content'})
            return
    elif op == 'delete':
        if status == 'ok' and cur is not None:
            viol.append({'cls': 'delete-not-applied', 'sig': sig, 'msg': f'{label}: delete returned but the object is still there'})
            return
        if cur not in (None, old):
            viol.append({'cls': 'object-corrupted', 'sig': sig, 'msg': f'{label}: delete changed the object content'})
            return
    else:
        if cur != old:
            viol.append({'cls': 'object-corrupted', 'sig': sig, 'msg': f'{label}: a read-only call changed the stored object'})
            return
    for n, v in out['others'].items():
        if objs.get(n) != v:
            viol.append({'cls': 'object-corrupted', 'sig': sig, 'msg': f'{label}: unrelated object {n} changed'})
            return
    # ---- result
    if status == 'ok':
        if missing_is_error:
            viol.append({'cls': 'wrong-result', 'sig': sig, 'msg': f'{label}: download of a missing object returned {val!r:.80}'})
            return
        if val != want:
            viol.append({'cls': 'wrong-result', 'sig': sig,
                         'msg': f'{label}: returned {_s(val)}, intended {_s(want)}' + (' (residue of an earlier attempt)' if isinstance(val, bytes) and isinstance(want, bytes) and len(val) > len(want) else '')})
            return
    if status == 'unbounded':
        viol.append({'cls': 'unbounded-retries', 'sig': sig, 'msg': f'{label}: {val}'})
        return
    if not plan:
        if status != 'ok' and not missing_is_error:
            viol.append({'cls': 'fault-free-failure', 'sig': sig, 'msg': f'{label}: {val!r}'})
        return
    f = plan[0]
    budget = masked_budget(adapter, f['kind'] if adapter != 'local' else 'x')
    fired = out['counters']
    n_fired = sum(v for k, v in fired.items() if k.startswith('fault:') or ':' in k and adapter == 'local')
    if n_fired == 0:
        return      # the placement was not reached in this run (e.g. op does not issue that request)
    if f['count'] is not None and f['count'] <= budget and not missing_is_error:
        if status != 'ok' and op not in TRANSFER_OPS:
            probes['gray_zone'] = probes.get('gray_zone', 0) + 1     # only transfers are promised to be masked
        elif status != 'ok':
            viol.append({'cls': 'transient-fault-not-masked', 'sig': sig,
                         'msg': f'{label}: {f["count"]} consecutive fault(s) (declared budget absorbs {budget}) but the call raised {val!r}'})
            return
        probes['masked'] = probes.get('masked', 0) + 1
    elif f['count'] is None:
        if status == 'ok' and not (f.get('lost_response') and op in ('upload', 'upload_stream', 'delete')):
            # a persistent fault on a request the operation needs cannot end in success
            if _needed(case, f, out) and f.get('err') != 'RMPARENT':     # (removing an empty directory does not fail anything by itself)
                viol.append({'cls': 'persistent-fault-swallowed', 'sig': sig, 'msg': f'{label}: every such request fails, yet the call returned {_s(val)}'})
                return
        if status == 'raised':
            probes['persistent_raised'] = probes.get('persistent_raised', 0) + 1
            if adapter != 'local':
                nreq = len(out['requests'])
                limit = (8 * max(1, len(base_requests))) if adapter == 's3' else 150
                if nreq > limit:
                    viol.append({'cls': 'unbounded-retries', 'sig': sig, 'msg': f'{label}: {nreq} requests before giving up (fault-free run needs {len(base_requests)})'})
                    return
                if f['kind'].startswith('status:403') and fired.get('fault:status:403', 0) > 1 and adapter == 's3':
                    viol.append({'cls': 'forbidden-retried', 'sig': sig, 'msg': f'{label}: 403 answered {fired["fault:status:403"]} times (must not be retried)'})
                    return
            else:
                attempts = max(fired.values()) if fired else 0
                if attempts > 8:
                    viol.append({'cls': 'unbounded-retries', 'sig': sig, 'msg': f'{label}: {attempts} failing attempts before giving up'})
                    return
    else:
        probes['gray_zone'] = probes.get('gray_zone', 0) + 1
    if adapter == 'local' and out.get('stray'):
        probes['stray_temp_file'] = probes.get('stray_temp_file', 0) + 1
    if f['kind'] == 'okerror':
        probes['list_ok_with_error_body'] = probes.get('list_ok_with_error_body', 0) + 1
    if f.get('lost_response'):
        probes['lost_response'] = probes.get('lost_response', 0) + 1
    if f.get('after_chunks') is not None and not f.get('lost_response'):
        probes['mid_upload' if op.startswith('upload') else 'mid_download'] = 1
    if adapter == 'b2' and out.get('svc') is not None and out['svc'].auth_count > 1:
        probes['b2_reauth'] = probes.get('b2_reauth', 0) + 1
    if f.get('after_chunks') is not None and not f.get('lost_response') and op == 'upload_stream' and status == 'ok':
        probes['rewound_partial_stream'] = probes.get('rewound_partial_stream', 0) + 1
    if 'retry-after' in str(f['kind']) or f['kind'].count(':') == 2:
        if out.get('elapsed', 0) >= 1.0:
            probes['retry_after_honoured'] = 1


def _needed(case, f, out):
    """Is the faulted request kind one the operation cannot do without?"""
    if case['adapter'] == 'local':
        return f['kind'] in ('open', 'write', 'replace', 'read', 'stat', 'unlink', 'mktemp') and f['kind'] != 'unlink' or (f['kind'] == 'unlink' and case['op'] == 'delete')
    return f['op'] not in ('authorize', 'list_buckets') or True


def _pos(f):
    if f.get('lost_response'):
        return 'after-last'
    if f.get('after_chunks') is not None:
        return 'mid'
    return 'before' if 'skip' not in f or f.get('op') else f'syscall{f.get("skip")}'


def _s(v):
    r = repr(v)
    return r if len(r) < 120 else r[:120] + '...'


def plans_for(case, base):
    """Enumerate fault placements from the fault-free run."""
    adapter = case['adapter']
    plans = []
    if adapter == 'local':
        seen = {}
        for kind, path in base['syscalls']:
            idx = seen.get(kind, 0)
            seen[kind] = idx + 1
            errs = ['EIO', 'EACCES'] + (['ENOSPC'] if kind == 'write' else [])
            if kind == 'mktemp':
                errs.append('RMPARENT')      # the directory vanished under the upload (another client's clean-up)
            if kind == 'scandir' and idx >= 1:
                errs.append('ENOENT')        # a sub-directory vanished while the listing was walking the tree
            for err in errs:
                for count in (1, 2, 4, 5, None):
                    plans.append([{'kind': kind, 'err': err, 'count': count, 'skip': idx}])
        return plans
    kinds = ['connect', 'read', 'write', 'status:500', 'status:503', 'status:429', 'status:429:2', 'status:403']
    if adapter == 'b2':
        kinds.append('status:401')
    ops_seen = []
    for op, method, target in base['requests']:
        if op not in ops_seen:
            ops_seen.append(op)
    nchunks = max(1, -(-case['size'] // case['chunk'])) if case['size'] else 1
    old_chunks = max(1, -(-(case['size'] if case.get('old_same_length') and case['size'] else case['old_size']) // 7)) if case['preexisting'] else 1
    for op in ops_seen:
        positions = [(None, False), (None, True)]
        if op in ('put', 'upload') and case['op'] == 'upload_stream':
            positions += [(j, False) for j in range(1, nchunks + 1)]
        if op in ('get', 'download') and case['op'] in ('download', 'download_stream'):
            positions += [(j, False) for j in sorted({1, 2, old_chunks})]
        for kind in kinds:
            if kind == 'status:401' and op == 'authorize':
                continue      # 401 on b2_authorize_account means bad credentials, not an expired token
            for (after, lost) in positions:
                if after is not None and kind.startswith('status:'):
                    continue
                for count in (1, 2, 3, None):
                    plans.append([{'kind': kind, 'op': op, 'count': count, 'skip': 0, 'after_chunks': after, 'lost_response': lost, 'code': None}])
        if adapter == 's3' and op == 'list':
            # a listing request answered "200 OK" with an error document, once or twice, for the first page or a later one:
            # the listing is complete all the same, or the call raises
            for count in (1, 2):
                for skip in (0, 1, 2):
                    plans.append([{'kind': 'okerror', 'op': op, 'count': count, 'skip': skip, 'after_chunks': None, 'lost_response': False, 'code': None}])
    return plans


def run_concurrent(case):
    """k concurrent adapter calls, tokens expire once mid-flight: a single expiry is within every budget, so
    every call must succeed with exact bytes, after a bounded number of requests."""
    import asyncio
    install.install_once()
    env = install.Env(case['sched_seed'])
    prng = substream(case['sched_seed'], 'payload')
    viol, probes = [], {}
    out = {}

    async def main(res):
        svc = fakes.FakeB2(bucket_name='bkt', bucket_id='bid', key_id='kid', application_key='akey', restricted=False,
                           latency=case['lat'], request_budget=400)
        svc.expire_after = case['expire_after']
        svc.authorize_latency = case['authorize_latency']
        backend = fakes.make_b2(svc)
        plans = []
        for i, c in enumerate(case['calls']):
            name = f'data/{i:02d}/obj-{i}'
            data = prng.randbytes(c['size'])
            if c['op'] in ('download', 'exists'):
                svc.versions[name] = [('upload', data, 'seed-' + name)]
            plans.append((c, name, data))
        svc.versions['data/zz/keep'] = [('upload', b'keep', 'seed-keep')]

        async def one(c, name, data):
            sub = dict(case, op=c['op'], chunk=c['chunk'], rate_limited=False)
            import inspect
            f = getattr(backend, c['op'])
            if c['op'] == 'upload':
                return await f(name, data)
            if c['op'] == 'upload_stream':
                raw, st = _chain_reader(data, False)
                return await f(name, st, len(data), c['chunk'])
            if c['op'] == 'download':
                return bytes(await f(name))
            if c['op'] == 'exists':
                return await f(name)
            return sorted([x async for x in f('data/zz/')])
        rs = await asyncio.gather(*(one(*p) for p in plans), return_exceptions=True)
        out['rs'] = rs
        out['plans'] = plans
        out['objects'] = dict(svc.objects)
        out['auth'] = svc.auth_count
        out['requests'] = len(svc.requests)
        out['expired'] = svc.counters.get('tokens-expired', 0)
        await backend.close()
    r = world.run_process(env, main, world.SchedOpts.from_dict(case['opts']))
    sig = {'adapter': 'b2', 'op': 'concurrent'}
    if r.hang is not None or (r.exc is not None and not isinstance(r.exc, fakes.BudgetExceeded)) or 'rs' not in out:
        if isinstance(r.exc, BaseException) and 'rs' not in out and r.hang is None:
            viol.append({'cls': 'unbounded-retries' if isinstance(r.exc, fakes.BudgetExceeded) else 'hang', 'sig': sig, 'msg': f'concurrent calls: {r.exc!r}'})
        else:
            viol.append({'cls': 'hang', 'sig': sig, 'msg': f'concurrent calls did not finish: {r.hang or r.exc!r}'})
    else:
        for (c, name, data), x in zip(out['plans'], out['rs']):
            if isinstance(x, BaseException):
                viol.append({'cls': 'transient-fault-not-masked', 'sig': sig,
                             'msg': f'{len(out["plans"])} concurrent B2 calls, tokens expired once after {case["expire_after"]} requests (authorize takes '
                                    f'{case["authorize_latency"]}s): {c["op"]}({name}) raised {x!r}; {out["auth"]} authorisations, {out["requests"]} requests'})
                break
            if c['op'] in ('upload', 'upload_stream') and out['objects'].get(name) != data:
                viol.append({'cls': 'object-corrupted', 'sig': sig, 'msg': f'concurrent {c["op"]}({name}) returned but the stored object differs from the payload'})
                break
            if c['op'] == 'download' and x != data:
                viol.append({'cls': 'wrong-result', 'sig': sig, 'msg': f'concurrent download({name}) returned other bytes'})
                break
            if c['op'] == 'exists' and x is not True:
                viol.append({'cls': 'wrong-result', 'sig': sig, 'msg': f'concurrent exists({name}) = {x}'})
                break
        if out.get('expired'):
            probes['concurrent_expiry'] = 1
        if not viol and out['requests'] > 40 * len(out['plans']):
            viol.append({'cls': 'unbounded-retries', 'sig': sig, 'msg': f'{out["requests"]} requests for {len(out["plans"])} calls and one token expiry'})
    return {'violations': viol, 'digest': r.digest, 'nontrivial': True, 'probes': probes, 'evaluations': 1, 'sim_s': r.stats['sim_s'], 'steps': r.stats['steps'],
            'sample': {'kind': 'concurrent', 'calls': [c['op'] for c in case['calls']], 'expire_after': case['expire_after'], 'auth': out.get('auth')}}


def run_e2e(case):
    from sim import gen as _gen, harness
    viol, probes = [], {'e2e': 1}
    W = harness.World(case['sched_seed'], 'c12', flavour='async', lat_kind='zero')
    try:
        files = _gen.materialize(W.dir / 'src', case['tree'])
        faults = [fakes.Fault.from_dict(f) for f in case['faults']]
        if case['adapter'] == 's3':
            svc = fakes.FakeS3(bucket='bkt', key_id='AKID', secret='secret/key+1', region='us-east-1', host='s3.fake.test',
                               page_size=case['page'], latency=case['lat'], faults=[], request_budget=None)
            mk = lambda: fakes.make_s3(svc)      # noqa
        else:
            svc = fakes.FakeB2(bucket_name='bkt', bucket_id='bid', key_id='kid', application_key='akey', page_size=case['page'],
                               latency=case['lat'], faults=[], request_budget=None)
            mk = lambda: fakes.make_b2(svc)      # noqa
        W.make_backend_override = mk
        client = world.Client('u', password=b'pw' if case['encrypted'] else None, concurrent=case['N'])
        settings = {'chunking': {'min_length': 8, 'max_length': 64},
                    'encryption': {'kdf': {'name': 'scrypt', 'n': 2, 'r': 1}} if case['encrypted'] else None}
        opts = world.SchedOpts.from_dict(case['opts'])
        r0 = W.init(client, settings, world.SchedOpts.sequential())
        if not r0.ok:
            raise RuntimeError(f'init failed in harness: {r0.outcome()} {r0.exc!r}')
        svc.faults = faults          # faults start with the snapshot
        sig = {'adapter': case['adapter'], 'op': 'e2e'}
        for name, run in (('snapshot', lambda: W.snapshot(client, [W.dir / 'src'], opts)), ('restore', lambda: W.restore(client, W.dir / 'out', opts))):
            before = len(svc.requests)
            r = run()
            if r.hang is not None:
                viol.append({'cls': 'hang', 'sig': sig, 'msg': f'{name} over {case["adapter"]} with transient faults did not terminate: {r.hang}'})
                break
            if r.exc is not None:
                fired = [f.as_dict() for f in faults if f.fired]
                viol.append({'cls': 'transient-fault-not-masked', 'sig': sig,
                             'msg': f'{name} over {case["adapter"]} raised {r.exc!r} although every injected fault stays within the retry budget; fired: {fired}'})
                break
            if len(svc.requests) - before > 60 * (len(files) * 12 + 10):
                viol.append({'cls': 'unbounded-retries', 'sig': sig, 'msg': f'{name}: {len(svc.requests) - before} requests'})
                break
        if not viol:
            got = _gen.read_tree(W.dir / 'out')
            want = {str(harness.restored_path(W.dir / 'out', p).relative_to(W.dir / 'out')): v for p, v in files.items()}
            if got != want and any(len(v[0]) for v in want.values()):
                viol.append({'cls': 'wrong-result', 'sig': sig, 'msg': f'snapshot + restore over {case["adapter"]} with masked transient faults does not reproduce the files'})
        if any(f.fired for f in faults):
            probes['e2e_fault_fired'] = 1
        for k, v in svc.counters.items():
            if k.startswith('fault:'):
                probes['e2e_' + k] = v
        return {'violations': viol, 'digest': W.digest(), 'nontrivial': True, 'probes': probes, 'evaluations': 1, 'sim_s': W.sim_s, 'steps': W.sim_steps,
                'sample': {'kind': 'e2e', 'adapter': case['adapter'], 'faults': case['faults'], 'requests': len(svc.requests)}}
    finally:
        W.close()


def run_case(case):
    if case.get('kind') == 'e2e':
        return run_e2e(case)
    if case.get('kind') == 'concurrent':
        return run_concurrent(case)
    viol, probes = [], {}
    digests = set()
    evaluations = 0
    base = run_one(case, [], 0)
    judge(case, [], base, [], viol, probes, 'fault-free')
    samples = []
    fired_total = {}
    sim_s, steps = 0.0, 0
    if not viol:
        plans = plans_for(case, base)
        rng = substream(case['sched_seed'], 'plans')
        if len(plans) > case['max_points']:
            plans = rng.sample(plans, case['max_points'])
        for i, plan in enumerate(plans):
            out = run_one(case, plan, i + 1)
            evaluations += 1
            label = f'{case["adapter"]}.{case["op"]}(size={case["size"]}, chunk={case["chunk"]}, existing={case["preexisting"]}) with {_plan_str(plan)}'
            judge(case, plan, out, base.get('requests', []), viol, probes, label)
            st = out.get('result', ('?',))[0]
            for k, v in out.get('counters', {}).items():
                if k.startswith('fault:') or case['adapter'] == 'local':
                    fired_total[k] = fired_total.get(k, 0) + v
            f = plan[0]
            digests.add((case['adapter'], case['op'], f['kind'], f.get('err'), _pos(f), f['count'], st))
            sim_s += out['proc'].stats['sim_s']
            steps += out['proc'].stats['steps']
            if len(samples) < 3:
                samples.append({'plan': plan, 'outcome': st, 'requests': len(out.get('requests', [])) or len(out.get('syscalls', []))})
            if viol:
                viol[0]['plan'] = plan
                break
    return {'violations': viol, 'digest': repr(sorted(digests, key=repr))[:64] + str(len(digests)), 'digests': [repr(x) for x in digests],
            'nontrivial': True, 'probes': probes, 'fired': fired_total, 'evaluations': max(1, evaluations), 'sim_s': sim_s, 'steps': steps,
            'sample': {'adapter': case['adapter'], 'op': case['op'], 'size': case['size'], 'chunk': case['chunk'],
                       'fault_free_requests': [r[0] for r in base.get('requests', [])] or [s[0] for s in base.get('syscalls', [])], 'placements': samples}}


def _plan_str(plan):
    f = plan[0]
    if 'err' in f:
        return f'{f["err"]} on {f["kind"]} syscall #{f["skip"]} x{f["count"] or "persistent"}'
    pos = 'response lost' if f.get('lost_response') else (f'after body chunk {f["after_chunks"]}' if f.get('after_chunks') is not None else 'before the first byte')
    return f'{f["kind"]} on {f["op"]} ({pos}) x{f["count"] or "persistent"}'


def shrink(case):
    if case.get('kind') == 'e2e':
        for i in range(len(case['faults'])):
            if len(case['faults']) > 1:
                c = copy.deepcopy(case)
                del c['faults'][i]
                yield c
        for i in range(len(case['tree'])):
            if len(case['tree']) > 1:
                c = copy.deepcopy(case)
                del c['tree'][i]
                yield c
        return
    if case.get('kind') == 'concurrent':
        for i in range(len(case['calls'])):
            if len(case['calls']) > 2:
                c = copy.deepcopy(case)
                del c['calls'][i]
                yield c
        return
    for k, v in (('others', 0), ('rate_limited', False), ('preexisting', False), ('page', 1000)):
        if case[k] != v:
            c = copy.deepcopy(case)
            c[k] = v
            yield c
    if case['size'] > 1:
        c = copy.deepcopy(case)
        c['size'] = case['size'] // 2
        yield c

"""C14  What replicat writes follows the documented repository format (both directions)."""
import base64
import copy
import datetime as _dt
import os
import shutil

from sim import gen, harness, history, ref_format, world
from sim.core import substream

PROP = 'C14'
TECHNIQUE = 'deterministic simulation + refinement against an independent reference reader/writer of the repository format (both directions)'
LEVEL = 'exploration'
RULE = ('two directions per seed. forward: a seeded history (init, add-key, snapshots, delete, clean) after every command of which '
        'an independently written reader (sim/ref_format.py: hashlib + AEAD primitives only) decodes config, key files, every '
        'object and every storage name, checks that recorded ranges tile each file and that reassembled chunks equal the captured '
        'bytes, digests and mtimes. reverse: the reference writer produces a repository (its own arbitrary chunk boundaries, chunks '
        'spanning several files, current and legacy metadata variants, encrypted or not, a shared-key snapshot of another user) and '
        'the real restore / list-snapshots / list-files must reproduce trees and listings. distinct_nontrivial = distinct event-log '
        'digests')
COMPONENTS = {
    'real': ['replicat.repository.Repository (all commands; unlock+restore+listings on reference-written data)', 'replicat.utils (JSON byte-string hints)'],
    'stub': ['OS thread scheduling', 'clocks', 'os.urandom', 'object store (SimStore)'],
    'reference': ['sim/ref_format.py reader and writer'],
}
ASSUMPTIONS = ['the reference reader/writer encodes my reading of the README and of the statement of C14']
PROBES = ['reverse_file_listing', 'reverse_epoch_timestamps', 'reverse_legacy_metadata', 'reverse_encrypted', 'reverse_foreign_snapshot', 'delete', 'clean']
TIERS = {'quick': {'budget_s': 70, 'batch': 10}, 'thorough': {'budget_s': 900, 'batch': 20}}
ORACLES = ('store', 'format', 'exact')


def gen_case(seed, tier):
    fwd = history.gen_history(seed, 'c14', nops=(2, 7), destructive=True, reads=False)
    rng = substream(seed, 'c14-reverse')
    settings = gen.gen_settings(rng)
    nsnap = rng.choice([1, 2, 3])
    snaps = []
    paths = history.gen_paths(rng, 5)
    t = 0
    for i in range(nsnap):
        files = []
        for p in rng.sample(paths, rng.randrange(1, len(paths) + 1)):
            size = rng.choice([0, 1, 3, 4, 17, 64, 100, 257, 1000])
            files.append({'p': p, 'd': base64.b64encode(rng.randbytes(size) if rng.random() < 0.8 else bytes(size)).decode(),
                          'mt': rng.randrange(10**9, 2 * 10**9) if rng.random() < 0.9 else rng.choice([0, 0, 1, 2**31, 2**32])})
        t += rng.randrange(1, 10**6)
        snaps.append({'files': files, 'legacy': rng.random() < 0.4, 'at': t, 'note': rng.choice([None, 'ref note']),
                      'maxchunk': rng.choice([1, 5, 16, 64, 300]), 'pad': rng.choice([0, 0, 1, 3, 4]),
                      'foreign': i > 0 and rng.random() < 0.3})
    fwd['reverse'] = {'settings': settings, 'snaps': snaps, 'seed': rng.randrange(1 << 40), 'N': rng.choice([1, 2, 4])}
    return fwd


def run_case(case):
    r = history.History({k: v for k, v in case.items() if k != 'reverse'}, 'c14', ORACLES).run()
    if r['violations']:
        return r
    r2 = run_reverse(case)
    r['violations'] += r2['violations']
    r['digest'] = r['digest'] + r2['digest']
    for k, v in r2['probes'].items():
        r['probes'][k] = r['probes'].get(k, 0) + v
    r['sim_s'] += r2['sim_s']
    r['steps'] += r2['steps']
    r['sample']['reverse'] = r2['sample']
    return r


def run_reverse(case):
    rv = case['reverse']
    rng = substream(rv['seed'], 'ref-writer')
    viol, probes = [], {}
    W = harness.World(case['sched_seed'] ^ 0xC14, 'c14r', flavour=case['flavour'], lat_kind=case['lat_kind'], lat=case['lat'])
    try:
        # ---- the reference writer builds config, keys and objects (never calls replicat)
        settings = rv['settings']
        cfg = {'hashing': dict(_hash_defaults(settings.get('hashing')), ),
               'chunking': dict(settings['chunking'], name='gclmulchunker')}
        enc = settings.get('encryption') is not None
        if enc:
            c = dict(settings['encryption']['cipher'])
            if c['name'] == 'aes_gcm':
                c.setdefault('key_bits', 256)
                c.setdefault('nonce_bits', 96)
            cfg['encryption'] = {'cipher': c}
            probes['reverse_encrypted'] = 1
        config_bytes = ref_format.dumps(cfg)
        objs = {'config': config_bytes}
        me = world.Client('me', concurrent=rv['N'])
        if enc:
            aead = ref_format.Aead(cfg['encryption']['cipher'])
            private = ref_format.new_private(aead, rng)
            me.password = b'ref password 1'
            me.key = ref_format.new_key_file(aead, private, me.password, rng, n=4, r=1)
            other_pw = b'another password'
            other_key = ref_format.new_key_file(aead, private, other_pw, rng, n=2, r=2)
            ref_me = ref_format.RefRepo(config_bytes, me.key, me.password)
            ref_other = ref_format.RefRepo(config_bytes, other_key, other_pw)
        else:
            ref_me = ref_other = ref_format.RefRepo(config_bytes)
        base = W.dir / 'origin'
        epoch = _dt.datetime(2020, 2, 29, 23, 59, 30)
        model = []
        for sn in rv['snaps']:
            writer = ref_other if (sn['foreign'] and enc) else ref_me
            if sn['foreign'] and enc:
                probes['reverse_foreign_snapshot'] = 1
            files = [(str(base / f['p']), base64.b64decode(f['d']), f['mt']) for f in sn['files']]
            stream = bytearray()
            spans = []
            for path, data, mt in files:
                if stream and sn['pad']:
                    stream += bytes(rng.randrange(0, sn['pad'] + 1))
                spans.append((path, len(stream), len(stream) + len(data), mt, data))
                stream += data
            cuts = [0]
            while cuts[-1] < len(stream):
                cuts.append(min(len(stream), cuts[-1] + rng.randrange(1, sn['maxchunk'] + 1)))
            table, entries = [], {p: [] for p, *_ in spans}
            for ci in range(len(cuts) - 1):
                a, b = cuts[ci], cuts[ci + 1]
                chunk = bytes(stream[a:b])
                loc, blob, digest = writer.encode_chunk(chunk, rng.randbytes(writer.aead.nonce_bytes) if enc else None)
                objs[loc] = blob
                if digest not in table:
                    table.append(digest)
                for path, fa, fb, mt, data in spans:
                    lo, hi = max(a, fa), min(b, fb)
                    if lo < hi:
                        entries[path].append({'range': [lo - a, hi - a], 'index': table.index(digest), 'counter': ci + 1})
            flist = []
            for path, fa, fb, mt, data in spans:
                if sn['legacy']:
                    md = {'st_mode': 0o100644, 'st_uid': 0, 'st_gid': 0, 'st_size': len(data), 'st_atime': mt - 5,
                          'st_mtime': mt, 'st_ctime': mt}
                    probes['reverse_legacy_metadata'] = 1
                    want_mt = mt * 10**9
                else:
                    off = (1, 7, 9) if mt else (0, 0, 0)     # mt == 0: every time-stamp is exactly the epoch
                    md = {'st_mode': 0o100644, 'st_uid': 0, 'st_gid': 0, 'st_size': len(data),
                          'st_atime_ns': mt * 10**9 + off[0], 'st_mtime_ns': mt * 10**9 + off[1], 'st_ctime_ns': mt * 10**9 + off[2]}
                    want_mt = mt * 10**9 + off[1]
                    if not mt:
                        probes['reverse_epoch_timestamps'] = 1
                if not entries[path] and table:
                    # an empty file still points into the stream (range of length 0 in the first chunk)
                    entries[path].append({'range': [0, 0], 'index': 0, 'counter': 1})
                flist.append({'path': path, 'chunks': entries[path], 'digest': writer.hash(data), 'metadata': md})
            ts = str(epoch + _dt.timedelta(seconds=sn['at']))
            data = {'utc_timestamp': ts, 'files': flist}
            if sn['note']:
                data['note'] = sn['note']
            loc, blob = writer.encode_snapshot(table, data, rng)
            objs[loc] = blob
            model.append({'loc': loc, 'ts': ts, 'mine': writer is ref_me or not enc,
                          'files': {p: (d, (m * 10**9 if sn['legacy'] or not m else m * 10**9 + 7)) for p, _, _, m, d in spans},
                          'name': ref_format.RefRepo.parse_snapshot_location(loc)[0]})
        W.state.objects.update(objs)

        # ---- the real code reads it
        opts = world.SchedOpts.from_dict(case['opts'])
        target = W.dir / 'out'
        r = W.restore(me, target, opts)
        if not r.ok:
            viol.append({'cls': 'reverse-restore-failed', 'sig': {'exc': type(r.exc).__name__ if r.exc else r.outcome()},
                         'msg': f'replicat cannot restore a repository written by the reference writer: {r.outcome()} {r.exc or r.hang!r}'})
            return _res(W, viol, probes, rv)
        want = {}
        for m in sorted((m for m in model if m['mine']), key=lambda m: m['ts'], reverse=True):
            for p, v in m['files'].items():
                want.setdefault(str(harness.restored_path(target, p).relative_to(target)), v)
        got = gen.read_tree(target)
        if got != want:
            bad = sorted(k for k in set(got) | set(want) if got.get(k) != want.get(k))
            k = bad[0]
            viol.append({'cls': 'reverse-restore-differs', 'sig': {'mtime_only': all(k in got and k in want and got[k][0] == want[k][0] for k in bad)},
                         'msg': f'restore of reference-written repository: {k!r}: got {_d(got.get(k))} want {_d(want.get(k))} ({len(bad)} paths differ)'})
            return _res(W, viol, probes, rv)
        r = W.list_snapshots(me, opts, header=False, columns=_cols('SnapshotListColumn', ['name', 'file_count']))
        if not r.ok:
            viol.append({'cls': 'reverse-listing-failed', 'sig': {}, 'msg': f'list-snapshots failed: {r.outcome()} {r.exc!r}'})
            return _res(W, viol, probes, rv)
        rows = sorted(tuple(c.strip() for c in l.split('\t')) for l in r.stdout.splitlines() if l.strip())
        exp = sorted((m['name'], str(len(m['files'])) if m['mine'] else '--') for m in model)
        if rows != exp:
            viol.append({'cls': 'reverse-listing', 'sig': {}, 'msg': f'list-snapshots rows {rows} != expected {exp}'})
            return _res(W, viol, probes, rv)
        # the file listing shows the recorded times of both metadata variants (seconds before 1.3, nanoseconds since)
        r = W.list_files(me, opts, header=False, columns=_cols('FileListColumn', ['snapshot_name', 'path', 'mtime']))
        if not r.ok:
            viol.append({'cls': 'reverse-listing-failed', 'sig': {'cmd': 'list-files'}, 'msg': f'list-files failed: {r.outcome()} {r.exc!r}'})
            return _res(W, viol, probes, rv)
        rows = sorted(tuple(c.strip() for c in l.split('\t')) for l in r.stdout.splitlines() if l.strip())
        exp = sorted((m['name'], p.strip(), history._fmt_ns(v[1])) for m in model if m['mine'] for p, v in m['files'].items())
        probes['reverse_file_listing'] = 1
        if rows != exp:
            bad = [x for x in rows if x not in exp][:2], [x for x in exp if x not in rows][:2]
            viol.append({'cls': 'reverse-file-listing', 'sig': {}, 'msg': f'list-files of a reference-written repository: rows {bad[0]} where {bad[1]} expected'})
        return _res(W, viol, probes, rv)
    finally:
        W.close()


def _cols(enum, names):
    import replicat.utils as U
    return [getattr(U, enum)(n) for n in names]


def _hash_defaults(h):
    if h is None:
        return {'length': 64, 'name': 'blake2b'}
    h = dict(h)
    if h['name'] == 'blake2b':
        h.setdefault('length', 64)
    else:
        h.setdefault('bits', 512)
    return h


def _d(v):
    return None if v is None else (len(v[0]), v[0][:16], v[1])


def _res(W, viol, probes, rv):
    return {'violations': viol, 'digest': W.digest(), 'probes': probes, 'sim_s': W.sim_s, 'steps': W.sim_steps,
            'sample': {'settings': rv['settings'], 'snaps': [(len(s['files']), s['legacy'], s['maxchunk'], s['foreign']) for s in rv['snaps']]}}


def shrink(case):
    for c in history.shrink_history({k: v for k, v in case.items() if k != 'reverse'}):
        c['reverse'] = copy.deepcopy(case['reverse'])
        yield c
    rv = case['reverse']
    for i in range(len(rv['snaps'])):
        if len(rv['snaps']) > 1:
            c = copy.deepcopy(case)
            del c['reverse']['snaps'][i]
            yield c
    for i, s in enumerate(rv['snaps']):
        for j in range(len(s['files'])):
            if len(s['files']) > 1:
                c = copy.deepcopy(case)
                del c['reverse']['snaps'][i]['files'][j]
                yield c
    if case['ops']:
        c = copy.deepcopy(case)
        c['ops'] = []
        yield c

"""C06  Access rights follow key relationships."""
from sim import history

PROP = 'C06'
TECHNIQUE = 'deterministic simulation: seeded key graphs and histories checked against an access matrix derived by an independent reader'
LEVEL = 'exploration'
RULE = ('[users are processes per command or long-lived programs that keep one Repository object across commands] one case = a key graph grown by init + add-key (independent / shared / clone, varied KDF parameters) and a seeded '
        'history of snapshot / list / restore / delete / clean / delete-of-foreign-snapshot / unlock-with-mismatched-credentials '
        'by arbitrary users; oracle = access matrix from the independent reader (who holds which user key / family secrets): '
        'unlock iff password matches key; listings, restores show nothing unreadable; foreign delete refused with the store '
        'unchanged; clean leaves foreign families byte-identical; shared users deduplicate. '
        'distinct_nontrivial = distinct event-log digests among histories with >= 1 snapshot')
COMPONENTS = {
    'real': ['replicat.repository.Repository (unlock, add_key, list_*, restore, delete_snapshots, clean)', 'replicat.utils.adapters'],
    'stub': ['OS thread scheduling', 'clocks', 'os.urandom', 'object store (SimStore)'],
    'reference': ['sim/ref_format.py decides who can decrypt what', 'sim/history.py model'],
}
ASSUMPTIONS = ['scrypt work factor reduced', 'a clone key (same password, fresh salt) has a different user key: it is a shared key']
PROBES = ['near_miss_unlock', 'blake2b_kdf_refused', 'unlock_mismatch', 'foreign_delete_shared', 'foreign_delete_independent', 'delete', 'clean']
TIERS = {'quick': {'budget_s': 70, 'batch': 10}, 'thorough': {'budget_s': 900, 'batch': 20}}
ORACLES = ('store', 'confined', 'selection', 'listing', 'dedup', 'near_miss')


def gen_case(seed, tier):
    return history.gen_history(seed, 'c06', max_users=4 if tier == 'thorough' else 3, encrypted=True, nops=(4, 24) if tier == 'thorough' else (4, 12), destructive=True, wrong_unlock=True, crash_snapshots=True,
                               foreign_delete=True, reads=True)


def run_case(case):
    return history.History(case, 'c06', ORACLES).run()


def shrink(case):
    return history.shrink_history(case)

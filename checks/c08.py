"""C08  Garbage collection is complete and confined to the caller's own data."""
from sim import history

PROP = 'C08'
TECHNIQUE = 'deterministic simulation with fault injection: histories with killed snapshots (orphans) and decoys; completeness and confinement of delete/clean'
LEVEL = 'exploration'
RULE = ('[users are processes per command or long-lived programs that keep one Repository object across commands] one case = a seeded history of snapshot / delete / clean by users of several key families, with snapshots killed at a '
        'seeded backend mutation (orphaned chunks, snapshot object present or not) and decoy objects outside the chunk and '
        'snapshot areas; after delete: no chunk referenced only by the deleted snapshots remains; after clean: the caller '
        'family\'s chunk objects == chunks referenced by remaining snapshots; config, decoys and every object of other families '
        'byte-identical; no delete outside data/ and snapshots/. distinct_nontrivial = distinct event-log digests among '
        'histories with >= 1 snapshot')
COMPONENTS = {
    'real': ['replicat.repository.Repository (delete_snapshots, clean, snapshot)', 'replicat.utils.adapters', 'src/adapters.cpp (shim build)'],
    'stub': ['OS thread scheduling', 'clocks', 'os.urandom', 'object store (SimStore) incl. crash injection'],
    'reference': ['sim/ref_format.py', 'sim/history.py model'],
}
ASSUMPTIONS = ['the chunk and snapshot areas contain only objects written by replicat', 'destructive commands run alone']
PROBES = ['ten_thousand_orphans', 'delete', 'clean', 'crashed_snapshot', 'foreign_delete_shared', 'foreign_delete_independent']
TIERS = {'quick': {'budget_s': 70, 'batch': 10}, 'thorough': {'budget_s': 900, 'batch': 20}}
ORACLES = ('store', 'confined', 'gc', 'journal')


def gen_case(seed, tier):
    from sim.core import substream
    case = _gen_case(seed, tier)
    if substream(seed, 'c08-many').random() < 0.006:
        # a clean that has more than 10 000 objects to list and delete (listing pages, batches, windows of in-flight deletions)
        case['many_orphans'] = 10_000 + substream(seed, 'c08-many2').randrange(1, 300)
        case['ops'] = [{'op': 'clean', 'u': 0}] + [o for o in case['ops'] if o['op'] != 'par'][:3]
        case['lat_kind'], case['backend'], case['live'], case['shared_object'] = 'zero', None, [], False
        case['flavour'] = 'sync' if substream(seed, 'c08-many4').random() < 0.25 else 'async'     # (the plain flavour costs ~25 s per case)
        case['opts'] = dict(case['opts'], step_cap=6_000_000, preempt_p=0.0)
        case['list_page'] = substream(seed, 'c08-many3').choice([None, 1000, 10_000])
    return case


def _gen_case(seed, tier):
    return history.gen_history(seed, 'c08', max_users=4 if tier == 'thorough' else 3, nops=(3, 24) if tier == 'thorough' else (3, 10), destructive=True, crash_snapshots=True, decoys=True,
                               foreign_delete=True, reads=False, many=0.08, services=True)


def _plant_orphans(H):
    """More unreferenced chunk objects of user 0's key family than any batch or page size in sight."""
    from sim.core import substream
    rng = substream(H.case['sched_seed'], 'orphans')
    ref = H.refs[0]
    n = H.case['many_orphans']
    dlen = len(ref.hash(b''))
    for _ in range(n):
        loc = ref.chunk_location(rng.randbytes(dlen))
        if H.universe is not None:
            H.universe.put_raw(loc, b'x')
        else:
            H.W.state.objects[loc] = b'x'
    H.orphans_possible = True
    H.probe('ten_thousand_orphans')


def run_case(case):
    H = history.History(case, 'c08', ORACLES)
    if case.get('many_orphans'):
        H.post_setup = _plant_orphans
    return H.run()


def shrink(case):
    return history.shrink_history(case)

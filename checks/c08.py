"""C08  Garbage collection is complete and confined to the caller's own data."""
from sim import history

PROP = 'C08'
TECHNIQUE = 'deterministic simulation with fault injection: histories with killed snapshots (orphans) and decoys; completeness and confinement of delete/clean'
LEVEL = 'exploration'
RULE = ('[users are processes per command or long-lived programs that keep one Repository object across commands] one case = a seeded history of snapshot / delete / clean by users of several key families, with snapshots killed at a '
        'seeded backend mutation (orphaned chunks, snapshot object present or not) and decoy objects outside the chunk and '
        'snapshot areas; after delete: no chunk referenced only by the deleted snapshots remains; after clean: the caller '
        'family\'s chunk objects == chunks referenced by remaining snapshots; config, decoys and every object of other families '
        'byte-identical; no delete outside data/ and snapshots/. distinct_nontrivial = distinct event-log digests among '
        'histories with >= 1 snapshot')
COMPONENTS = {
    'real': ['replicat.repository.Repository (delete_snapshots, clean, snapshot)', 'replicat.utils.adapters', 'src/adapters.cpp (shim build)'],
    'stub': ['OS thread scheduling', 'clocks', 'os.urandom', 'object store (SimStore) incl. crash injection'],
    'reference': ['sim/ref_format.py', 'sim/history.py model'],
}
ASSUMPTIONS = ['the chunk and snapshot areas contain only objects written by replicat', 'destructive commands run alone']
PROBES = ['delete', 'clean', 'crashed_snapshot', 'foreign_delete_shared', 'foreign_delete_independent']
TIERS = {'quick': {'budget_s': 70, 'batch': 10}, 'thorough': {'budget_s': 900, 'batch': 20}}
ORACLES = ('store', 'confined', 'gc', 'journal')


def gen_case(seed, tier):
    return history.gen_history(seed, 'c08', max_users=4 if tier == 'thorough' else 3, nops=(3, 24) if tier == 'thorough' else (3, 10), destructive=True, crash_snapshots=True, decoys=True,
                               foreign_delete=True, reads=False, many=0.08, services=True)


def run_case(case):
    return history.History(case, 'c08', ORACLES).run()


def shrink(case):
    return history.shrink_history(case)

"""C20  The bandwidth limit is respected and transparent to the data."""
import copy
import io
import types

from sim import core, gen, harness, install, world
from sim.core import substream

PROP = 'C20'
TECHNIQUE = 'deterministic simulation: seeded interleavings of 1-4 streams on one limiter on a virtual clock; windowed rate bounds from logged clock reads; rate-limited real commands'
LEVEL = 'exploration'
RULE = ('one case = 1..4 simulated threads, each pumping a seeded sequence of read (or write) requests of sizes d <= L/4 through one real '
        'RateLimitedIO(L).wrap(stream) (optionally inside the TQDM wrapper chain the commands use), underlying streams with seeded latency '
        'profiles (0, small, comparable to d/L, >> d/L), interleaved by the seeded scheduler with line pre-emption inside replicat.utils '
        'and early timer firing, on a virtual clock; every value the limiter reads from the clock and every sleep is logged. Oracles: '
        '(strict) for every window [t_i,t_j] of pass-through events bytes <= L*T + 0.5*L + (streams+1)*d_max whenever there is one stream or the '
        'limiter credited no I/O time at all; (relaxed) in EVERY run bytes <= L*(T + sum of credited I/O time) + 1.5*L + (streams+1)*d_max; '
        'bytes out == bytes in per stream, in order; seek/tell/truncate through the chain act on the underlying stream. A second profile runs '
        'the real snapshot/restore with rate_limit over SimStore (transparency; strict bound at concurrency 1), in half of the cases through one long-lived Repository object with the restore under another limit. '
        'distinct_nontrivial = distinct event-log digests among cases with >= 50 requests')
COMPONENTS = {
    'real': ['replicat.utils.RateLimitedIO, _RateLimitedFileWrapper, TQDMIOReader/Writer', 'replicat.repository snapshot/restore with rate_limit (profile 2)'],
    'stub': ['OS thread scheduling', 'time.perf_counter / time.sleep (virtual clock; sleep returns exactly on time)', 'underlying streams with seeded latency', 'object store (profile 2)'],
}
ASSUMPTIONS = ['sleep returns exactly on time and runnable threads are not descheduled for measurable time (negative debt after an oversleep is not capped by the limiter: reported as information in DESIGN.md, not as a violation)', 'request sizes d <= L/4 as the commands choose (limit // (16*concurrency))']
PROBES = ['think_time', 'multi_stream', 'latency_comparable', 'slept', 'preempted', 'command_profile', 'same_object_two_limits', 'seek_truncate', 'writes']
TIERS = {'quick': {'budget_s': 45, 'batch': 20}, 'thorough': {'budget_s': 600, 'batch': 40}}


def gen_case(seed, tier):
    rng = substream(seed, 'c20')
    if rng.random() < 0.15:
        tiny = substream(seed, 'c20-tiny').random() < 0.15      # limits below 16 x concurrency: the command's block size bottoms out at 1 byte
        return {'seed': seed, 'sched_seed': seed, 'kind': 'command', 'L': rng.choice([500, 2000, 8000, 20000, 50000]) if not tiny else substream(seed, 'c20-tiny2').choice([4, 7, 20, 40]),
                'N': rng.choice([1, 1, 2, 3]),
                'size': rng.choice([500, 3000, 9000, 40000, 120000]) if not tiny else substream(seed, 'c20-tiny3').choice([60, 300]), 'big_chunks': rng.random() < 0.5 and not tiny,
                'objects': rng.random() < 0.4, 'opts': world.SchedOpts.swarm(rng).as_dict(), 'flavour': rng.choice(['sync', 'async']),
                # one long-lived process (same Repository object) for snapshot and restore, the restore under another limit
                'live': substream(seed, 'c20-live').random() < 0.5,
                'L_restore_factor': substream(seed, 'c20-live2').choice([1, 1, 0.1, 0.25, 4])}
    L = rng.choice([100, 1000, 64000, 10**6, 12345])
    n = rng.choice([1, 1, 2, 3, 4])
    dmax = max(L // 4, 1)
    streams = []
    for _ in range(n):
        mode = rng.choice(['max', 'small', 'mixed', 'tiny'])
        lat = rng.choice([0, 0, 0.0001, 0.5 * dmax / L, dmax / L, 3 * dmax / L, 0.3])
        k = rng.randrange(30, 250)
        if L >= 2200 and substream(seed, f'c20-subms{len(streams)}').random() < 0.12:
            # thousands of requests that each owe less than a millisecond, several seconds' worth in total
            mode, k, lat = 'sub-ms', rng.randrange(2500, 4000), rng.choice([0, 0, 0.00001])
        reqs = []
        for _ in range(k):
            if mode == 'max':
                reqs.append(dmax)
            elif mode == 'small':
                reqs.append(max(1, dmax // 16))
            elif mode == 'tiny':
                reqs.append(rng.randrange(1, 4))
            elif mode == 'sub-ms':
                reqs.append(max(1, L // rng.choice([1100, 2000, 5000])))
            else:
                reqs.append(rng.randrange(1, dmax + 1))
        streams.append({'reqs': reqs, 'lat': lat, 'lat_kind': rng.choice(['const', 'uniform', 'burst']), 'chain': rng.random() < 0.4,
                        # time the consumer spends between two calls (sending the block on, a slow peer)
                        'think': rng.choice([0, 0, 0, 0.5 * dmax / L, 2 * dmax / L])})
    return {'seed': seed, 'sched_seed': seed, 'kind': 'pump', 'L': L, 'dir': rng.choice(['read', 'read', 'write']), 'streams': streams,
            'opts': world.SchedOpts.swarm(rng, step_cap=2_000_000, time_cap=10**9).as_dict()}


class Src:
    """Underlying stream with latency; logs pass-through events."""

    def __init__(self, s, log, tid, lat, lat_kind, rng, payload):
        self.s, self.log, self.tid, self.lat, self.kind, self.rng = s, log, tid, lat, lat_kind, rng
        self.buf = io.BytesIO(payload)
        self.out = io.BytesIO()

    def _delay(self):
        if not self.lat:
            return
        if self.kind == 'const':
            d = self.lat
        elif self.kind == 'uniform':
            d = self.rng.random() * self.lat
        else:
            d = self.lat * (8 if self.rng.random() < 0.1 else 0.1)
        self.s.sleep(d)

    def read(self, size=-1):
        t0 = self.s.now
        self._delay()
        data = self.buf.read(size)
        self.log.append(('io', self.tid, t0, self.s.now, len(data)))
        return data

    def write(self, data):
        t0 = self.s.now
        self._delay()
        n = self.out.write(data)
        self.log.append(('io', self.tid, t0, self.s.now, n))
        return n

    def seek(self, *a):
        return self.buf.seek(*a)

    def tell(self):
        return self.buf.tell()

    def truncate(self, *a):
        return self.out.truncate(*a)


def run_pump(case):
    import replicat.utils as U
    install.install_once()
    opts = world.SchedOpts.from_dict(case['opts'])
    # virtual time advances only when every thread is blocked: a runnable thread is never descheduled
    # for a measurable time (the limiter does not cap negative debt, so time lost between its two
    # clock reads around a sleep turns into an unbounded burst - outside the stated assumptions)
    opts.timer_p = 0.0
    s = core.Sched(case['sched_seed'], preempt_p=opts.preempt_p, timer_p=opts.timer_p, policy=opts.policy, sticky_p=opts.sticky_p,
                   step_cap=opts.step_cap, time_cap=10**9)
    env = install.Env(case['sched_seed'])
    log = []
    saved_time = U.time
    U.time = types.SimpleNamespace(
        perf_counter=lambda: (log.append(('pc', s.cur().id, s.now)), s.now)[1],
        sleep=lambda d: (log.append(('sleep', s.cur().id, s.now, d)), s.sleep_exact(d))[1],
        monotonic=lambda: s.now, time=lambda: s.now, perf_counter_ns=lambda: int(s.now * 1e9), monotonic_ns=lambda: int(s.now * 1e9))
    install.begin(s, env)
    viol, probes = [], {}
    L = case['L']
    n = len(case['streams'])
    dmax = max(r for st in case['streams'] for r in st['reqs'])
    lim = U.RateLimitedIO(L)
    results = {}
    try:
        def pump(i, st):
            rng = substream(case['sched_seed'], f'stream{i}')
            payload = rng.randbytes(sum(st['reqs']))
            src = Src(s, log, i + 1, st['lat'], st['lat_kind'], rng, payload)
            w = lim.wrap(src)
            if st['chain']:
                w = (U.TQDMIOReader if case['dir'] == 'read' else U.TQDMIOWriter)(w, desc='x', total=None, position=0, disable=True)
            got = bytearray()
            if case['dir'] == 'read':
                for d in st['reqs']:
                    got += w.read(d)
                    if st.get('think'):
                        s.sleep(st['think'])
                # seek through the chain rewinds the underlying stream
                if st['chain']:
                    pos = w.seek(0)
                    results[(i, 'seek')] = (pos, src.buf.tell())
                results[i] = (bytes(got), payload)
            else:
                pos = 0
                for d in st['reqs']:
                    w.write(payload[pos:pos + d])
                    pos += d
                    if st.get('think'):
                        s.sleep(st['think'])
                if st['chain']:
                    new = w.truncate(max(0, len(payload) - 3))
                    results[(i, 'truncate')] = (new, len(src.out.getvalue()), max(0, len(payload) - 3))
                    results[i] = (src.out.getvalue(), payload[:max(0, len(payload) - 3)])
                else:
                    results[i] = (src.out.getvalue(), payload)

        for i, st in enumerate(case['streams']):
            s.spawn(lambda i=i, st=st: pump(i, st), f'pump-{i + 1}')
        try:
            s.block_until(lambda: all(t.state == core.DONE for t in s.tasks[1:]), what='pumps')
        except core.SimAbort:
            pass
    finally:
        try:
            s.shutdown()
        finally:
            install.end()
            U.time = saved_time
    if s.error is not None:
        if isinstance(s.error, (core.SimDeadlock, core.SimLivelock)):
            viol.append({'cls': 'hang', 'sig': {}, 'msg': f'pumping through the limiter did not terminate: {s.error}'})
        else:
            viol.append({'cls': 'exception', 'sig': {'exc': type(s.error).__name__}, 'msg': f'exception in a pump thread: {s.error!r}'})
        return _res(case, s, viol, probes, log)
    # ---- transparency
    for i, st in enumerate(case['streams']):
        got, want = results[i]
        if got != want:
            viol.append({'cls': 'data-altered', 'sig': {'dir': case['dir']}, 'msg': f'stream {i}: {len(got)} bytes came out, {len(want)} went in '
                         f'(first difference at {_fd(got, want)})'})
            return _res(case, s, viol, probes, log)
        if (i, 'seek') in results:
            probes['seek_truncate'] = 1
            pos, under = results[(i, 'seek')]
            if pos != 0 or under != 0:
                viol.append({'cls': 'seek-not-forwarded', 'sig': {}, 'msg': f'seek(0) through the chain returned {pos}, underlying position {under}'})
        if (i, 'truncate') in results:
            probes['seek_truncate'] = 1
            new, size, want_size = results[(i, 'truncate')]
            if size != want_size:
                viol.append({'cls': 'truncate-not-forwarded', 'sig': {}, 'msg': f'truncate({want_size}) through the chain left the underlying stream at {size} bytes'})
    if viol:
        return _res(case, s, viol, probes, log)
    # ---- rate bounds
    ios = [e for e in log if e[0] == 'io']
    calls = _measured_calls(log)
    if any(e[0] == 'sleep' for e in log):
        probes['slept'] = 1
    if n > 1:
        probes['multi_stream'] = 1
    if any(st.get('think') for st in case['streams']):
        probes['think_time'] = 1
    if any(st['lat'] and 0.2 <= st['lat'] / (dmax / L) <= 5 for st in case['streams']):
        probes['latency_comparable'] = 1
    if s.preemptions:
        probes['preempted'] = 1
    if case['dir'] == 'write':
        probes['writes'] = 1
    ev = sorted((e[3], e[4]) for e in ios)          # (pass-through time, bytes)
    A = 0.5 * L + (n + 1) * dmax
    strict_excess, relaxed_excess, worst = _bounds(ev, calls, L)
    overlap = _overlapping_credit(calls)
    credit = sum(min(c[2] - c[1], c[3] / L) for c in calls)
    if relaxed_excess > L + A + 1e-6 * L:
        viol.append({'cls': 'relaxed-bound-exceeded', 'sig': {'streams': n > 1},
                     'msg': f'L={L} streams={n} d_max={dmax}: a window passes {relaxed_excess / L:.2f}*L bytes more than L*(T + credited I/O time) '
                            f'(allowance {(L + A) / L:.2f}*L): window {worst}'})
    elif strict_excess > A + 1e-6 * L:
        viol.append({'cls': 'strict-bound-exceeded', 'sig': {'io_credit': credit > 1e-9, 'multi_stream': n > 1},
                     'msg': f'L={L} streams={n} d_max={dmax} latencies={[st["lat"] for st in case["streams"]]}: a window passes {strict_excess / L:.2f}*L '
                            f'bytes more than L*T (fixed allowance {A / L:.2f}*L); credited I/O time {credit:.3f}s (credit intervals of different threads overlap: {overlap})'})
    return _res(case, s, viol, probes, log, extra={'strict_excess_over_L': round(strict_excess / L, 3), 'allowance_over_L': round(A / L, 3)})


def _measured_calls(log):
    """[(task, pc_before, pc_after, bytes)] as measured by the wrapper itself."""
    per = {}
    for e in log:
        per.setdefault(e[1], []).append(e)
    calls = []
    for tid, evs in per.items():
        for k, e in enumerate(evs):
            if e[0] != 'io':
                continue
            before = next((x for x in reversed(evs[:k]) if x[0] == 'pc'), None)
            after = next((x for x in evs[k + 1:] if x[0] == 'pc'), None)
            if before is None or after is None:
                continue
            calls.append((tid, before[2], after[2], e[4]))
    return calls


def _overlapping_credit(calls):
    iv = sorted((c[1], c[2], c[0]) for c in calls if c[2] > c[1])
    for i in range(len(iv)):
        for j in range(i + 1, len(iv)):
            if iv[j][0] >= iv[i][1]:
                break
            if iv[j][2] != iv[i][2]:
                return True
    return False


def _bounds(ev, calls, L):
    """Worst excess over all windows of bytes - L*T (strict) and bytes - L*(T + credit) (relaxed)."""
    if not ev:
        return 0.0, 0.0, None
    import bisect
    pre = [0]
    for t, b in ev:
        pre.append(pre[-1] + b)
    # credit prefix over calls ordered by their end time
    cs = sorted((c[2], min(c[2] - c[1], c[3] / L)) for c in calls)
    ct = [c[0] for c in cs]
    cpre = [0.0]
    for _, cr in cs:
        cpre.append(cpre[-1] + cr)
    strict = relaxed = 0.0
    worst = None
    n = len(ev)
    step = max(1, n // 400)
    idx = sorted(set(list(range(0, n, step)) + [n - 1]))
    for i in idx:
        for j in idx:
            if j < i:
                continue
            T = ev[j][0] - ev[i][0]
            B = pre[j + 1] - pre[i]
            ex = B - L * T
            if ex > strict:
                strict = ex
            # credit of calls that ended within [t_i, t_j]
            lo = bisect.bisect_left(ct, ev[i][0])
            hi = bisect.bisect_right(ct, ev[j][0])
            cr = cpre[hi] - cpre[lo]
            exr = B - L * (T + cr)
            if exr > relaxed:
                relaxed = exr
                worst = (round(ev[i][0], 6), round(ev[j][0], 6), B)
    return strict, relaxed, worst


def _fd(a, b):
    for i, (x, y) in enumerate(zip(a, b)):
        if x != y:
            return i
    return min(len(a), len(b))


def _res(case, s, viol, probes, log, extra=None):
    nreq = sum(len(st['reqs']) for st in case['streams'])
    sample = {'L': case['L'], 'dir': case['dir'], 'streams': [(len(st['reqs']), st['lat'], st['lat_kind'], st['chain']) for st in case['streams']],
              'opts': case['opts'], 'sim_s': round(s.now, 3)}
    sample.update(extra or {})
    return {'violations': viol, 'digest': s.digest(), 'nontrivial': nreq >= 50, 'probes': probes, 'sim_s': s.now, 'steps': s.steps,
            'sample': sample}


def run_command(case):
    """The real snapshot / restore with rate_limit over SimStore."""
    viol, probes = [], {'command_profile': 1}
    W = harness.World(case['sched_seed'], 'c20', flavour=case['flavour'], lat_kind='uniform', lat=0.002)
    try:
        rng = substream(case['sched_seed'], 'c20-files')
        src = W.dir / 'src'
        src.mkdir()
        import os
        want = {}
        for i in range(3):
            data = rng.randbytes(case['size'] + i)
            (src / f'f{i}').write_bytes(data)
            os.utime(src / f'f{i}', ns=(10**18, 10**18 + i))
            want[f'f{i}'] = data
        client = world.Client('u', concurrent=case['N'])
        settings = {'chunking': {'min_length': 64, 'max_length': 512}, 'encryption': None}
        if case.get('big_chunks'):
            # chunk objects larger than any plausible transfer block, so the block size the command picks matters
            settings = {'chunking': {'min_length': 4096, 'max_length': 65536}, 'encryption': None}
        opts = world.SchedOpts.from_dict(case['opts'])
        r0 = W.init(client, settings, world.SchedOpts.sequential())
        L = case['L']
        t0 = W.env.now
        live = bool(case.get('live'))
        if live:
            probes['same_object_two_limits'] = 1
        r1 = W.snapshot(client, [src], opts, rate_limit=L, live=live)
        t1 = W.env.now
        if not r1.ok:
            viol.append({'cls': 'command-failed', 'sig': {'cmd': 'snapshot'}, 'msg': f'snapshot with rate limit failed: {r1.outcome()} {r1.exc or r1.hang!r}'})
            return {'violations': viol, 'digest': W.digest(), 'probes': probes, 'sim_s': W.sim_s, 'steps': W.sim_steps}
        up = r1.backend.payload_uploaded
        d = max(L // (case['N'] * 16), 1)
        A = 0.5 * L + (case['N'] + 1) * d
        if case['N'] == 1 and up > L * (t1 - t0) + A + 1e-6 * L:
            viol.append({'cls': 'command-rate-exceeded', 'sig': {'cmd': 'snapshot'},
                         'msg': f'snapshot uploaded {up} payload bytes in {t1 - t0:.3f} simulated s with --limit-rate {L} (allowance {A:.0f})'})
        if case.get('objects'):
            # upload-objects / download-objects pick their block size the same way
            import os as _os
            cwd = _os.getcwd()
            _os.chdir(W.dir)
            try:
                async def do_up(repo):
                    from pathlib import Path
                    return await repo.upload_objects([Path('src')], rate_limit=L)
                t0 = W.env.now
                before = r1.backend.payload_uploaded
                ru = W.run(client, do_up, opts, unlock=False)
                t1 = W.env.now
                total = sum(len(v) for v in want.values())
                if not ru.ok:
                    viol.append({'cls': 'command-failed', 'sig': {'cmd': 'upload-objects'}, 'msg': f'upload-objects with rate limit failed: {ru.outcome()} {ru.exc or ru.hang!r}'})
                elif case['N'] == 1 and total > L * (t1 - t0) + A + 1e-6 * L:
                    viol.append({'cls': 'command-rate-exceeded', 'sig': {'cmd': 'upload-objects'},
                                 'msg': f'upload-objects sent {total} bytes in {t1 - t0:.3f} simulated s with --limit-rate {L} (allowance {A:.0f})'})

                async def do_down(repo):
                    return await repo.download_objects(path=W.dir / 'objs', object_prefix='src/', rate_limit=L)
                t0 = W.env.now
                rd = W.run(client, do_down, opts, unlock=False)
                t1 = W.env.now
                if not rd.ok:
                    viol.append({'cls': 'command-failed', 'sig': {'cmd': 'download-objects'}, 'msg': f'download-objects with rate limit failed: {rd.outcome()} {rd.exc or rd.hang!r}'})
                else:
                    got = {p.name: p.read_bytes() for p in (W.dir / 'objs' / 'src').iterdir()} if (W.dir / 'objs' / 'src').exists() else {}
                    if got != want:
                        viol.append({'cls': 'data-altered', 'sig': {'dir': 'objects'}, 'msg': 'upload-objects + download-objects with rate limit do not reproduce the files'})
                    elif case['N'] == 1 and total > L * (t1 - t0) + A + 1e-6 * L:
                        viol.append({'cls': 'command-rate-exceeded', 'sig': {'cmd': 'download-objects'},
                                     'msg': f'download-objects wrote {total} bytes in {t1 - t0:.3f} simulated s with --limit-rate {L}'})
            finally:
                _os.chdir(cwd)
            if viol:
                return {'violations': viol, 'digest': W.digest(), 'probes': probes, 'sim_s': W.sim_s, 'steps': W.sim_steps}
        # (the whole restore has to fit into the simulated-time cap of one process)
        total_bytes = sum(len(v) for v in want.values())
        # ... and into its step cap: the command moves the data in blocks of L // (16 N) bytes, at most ~20 000 of them here
        # (below 4 bytes/s even a 1-byte block is more than L/4: outside the property's quantifier)
        L = max(int(L * case.get('L_restore_factor', 1)), 4, total_bytes // 1500 + 1, 16 * case['N'] * (total_bytes // 20_000) or 1)
        d = max(L // (case['N'] * 16), 1)
        A = 0.5 * L + (case['N'] + 1) * d
        t0 = W.env.now
        r2 = W.restore(client, W.dir / 'out', opts, rate_limit=L, live=live)
        t1 = W.env.now
        if not r2.ok:
            viol.append({'cls': 'command-failed', 'sig': {'cmd': 'restore'}, 'msg': f'restore with rate limit failed: {r2.outcome()} {r2.exc or r2.hang!r}'})
        else:
            got = gen.read_tree(W.dir / 'out')
            gotc = {k.rsplit('/', 1)[-1]: v[0] for k, v in got.items()}
            if gotc != want:
                viol.append({'cls': 'data-altered', 'sig': {'dir': 'command'}, 'msg': 'snapshot+restore with rate limit does not reproduce the files'})
            down = sum(len(v) for v in want.values())
            if case['N'] == 1 and down > L * (t1 - t0) + A + 1e-6 * L:
                viol.append({'cls': 'command-rate-exceeded', 'sig': {'cmd': 'restore'},
                             'msg': f'restore wrote {down} bytes in {t1 - t0:.3f} simulated s with --limit-rate {L}'})
        return {'violations': viol, 'digest': W.digest(), 'nontrivial': True, 'probes': probes, 'sim_s': W.sim_s, 'steps': W.sim_steps,
                'sample': {'kind': 'command', 'L': L, 'N': case['N'], 'payload': up}}
    finally:
        W.close()


def run_case(case):
    if case['kind'] == 'command':
        return run_command(case)
    return run_pump(case)


def shrink(case):
    if case['kind'] != 'pump':
        return
    if len(case['streams']) > 1:
        for i in range(len(case['streams'])):
            c = copy.deepcopy(case)
            del c['streams'][i]
            yield c
    for i, st in enumerate(case['streams']):
        if len(st['reqs']) > 10:
            c = copy.deepcopy(case)
            c['streams'][i]['reqs'] = st['reqs'][:len(st['reqs']) // 2]
            yield c
        if st['lat']:
            c = copy.deepcopy(case)
            c['streams'][i]['lat'] = 0
            yield c
    for k in ('preempt_p', 'timer_p'):
        if case['opts'].get(k):
            c = copy.deepcopy(case)
            c['opts'][k] = 0.0
            yield c

"""C04  Damaged or substituted repository objects are never restored silently."""
import copy
import shutil

from sim import gen, harness, history, world
from sim.core import substream

PROP = 'C04'
TECHNIQUE = 'deterministic simulation with fault injection: enumeration of stored-object damage (flip/truncate/extend/swap/replay/delete) between commands; restore must raise or be exact'
LEVEL = 'fault_enumeration'
RULE = ('one case = a repository produced by the real snapshot command (encrypted with either cipher or unencrypted, 1..3 snapshots by 1..2 '
        'users over overlapping file sets) and, for EVERY stored chunk and snapshot object, the damage families: bit flip (offsets 0, nonce '
        'boundary, middle, last byte + seeded offsets), truncate (0, 1, nonce length, len-1, seeded), extend (+1 byte, +block), swap with other '
        'objects of the same kind, replay of one object under the name of another, delete - applied singly - plus seeded pairs; after each, '
        'the real restore runs (no cache / cold cache / warm cache holding the undamaged snapshot) under a seeded schedule, and once more '
        'with the same cache directory when the first attempt raised; every fifth case restores once before the damage and once after it through the '
        'same Repository object (and once more through it when that attempt raised). Oracle: restore '
        'raises, or the tree it produced equals the captured contents (of all snapshots, or of all but a snapshot whose object was made '
        'invisible). quick samples at most 160 damage cases per repository, thorough 1500. evaluations = damage cases run; '
        'distinct_nontrivial = distinct (object kind, damage kind, outcome) over all cases with their position bucket')
COMPONENTS = {
    'real': ['replicat.repository.Repository (restore, _load_snapshots, chunk and snapshot verification)', 'replicat.utils.adapters (AEAD, hashes)'],
    'stub': ['OS thread scheduling', 'clocks', 'os.urandom', 'object store (SimStore) whose stored bytes are damaged between commands'],
}
ASSUMPTIONS = ['the adversary cannot compute keyed MACs (replay is under an existing name)', 'hash collisions do not occur']
PROBES = ['megabyte_chunks', 'same_instance_after_damage', 'same_instance_retry_after_failure', 'retry_same_cache', 'flip', 'truncate', 'extend', 'swap', 'replay', 'delete', 'pair', 'restore_raised', 'restore_ok_intact', 'restore_ok_without_damaged_snapshot', 'warm_cache']
# a quarter of the budget runs again under `python -O` (asserts compiled out): verification must not be an assert
ENV_VARIANT = {'PYTHONOPTIMIZE': '1'}
VARIANT_SHARE = 0.25
TIERS = {'quick': {'budget_s': 45, 'batch': 1}, 'thorough': {'budget_s': 900, 'batch': 2}}


def gen_case(seed, tier):
    rng = substream(seed, 'c04')
    case = history.gen_history(seed, 'c04h', max_users=2, nops=(1, 4), destructive=False, reads=False)
    case['ops'] = [o for o in case['ops'] if o['op'] == 'snapshot'][:3]
    case['budget'] = 160 if tier == 'quick' else 1500
    case['damage_seed'] = rng.randrange(1 << 30)
    case['reader'] = rng.randrange(len(case['users']))
    brng = substream(seed, 'c04-big')
    if brng.random() < 0.04:
        # chunk objects of several megabytes (default-sized chunks): size-dependent paths of the verification
        case['settings']['chunking'] = {'min_length': 4_200_000, 'max_length': 5_120_000}
        case['contents'] = [f'rand:{seed}:{4_300_000 + brng.randrange(0, 900_000)}', f'rand:{seed + 1}:{brng.randrange(1, 3000)}']
        case['users'] = case['users'][:1]
        case['ops'] = [{'op': 'snapshot', 'u': 0, 'files': {'big.bin': 0, 'small.bin': 1}, 'at': 1.0, 'mt': 1_500_000_000, 'note': None}]
        case['reader'] = 0
        case['live'], case['shared_object'], case['backend'] = [], False, None
        case['budget'] = 16 if tier == 'quick' else 60
        case['big'] = True
    return case


def damages_for(objs, rng, nonce_len):
    """All single damages (name, kind, params) for every chunk / snapshot object."""
    out = []
    names = sorted(k for k in objs if k.startswith(('data/', 'snapshots/')))
    for name in names:
        data = objs[name]
        n = len(data)
        kind = 'chunk' if name.startswith('data/') else 'snapshot'
        others = [o for o in names if o != name and o.startswith(name.split('/')[0] + '/')]
        if n:
            offs = sorted({0, min(nonce_len, n) - 1 if nonce_len else 0, min(nonce_len, n - 1), n // 2, n - 1}
                          | {rng.randrange(n) for _ in range(8)})
            for o in offs:
                out.append((name, 'flip', (o, rng.randrange(8))))
            for t in sorted({0, 1, min(nonce_len, n - 1), n - 1, rng.randrange(n)}):
                if 0 <= t < n:
                    out.append((name, 'truncate', t))
        out.append((name, 'extend', 1))
        out.append((name, 'extend', 16))
        for o in others:
            out.append((name, 'swap', o))
            out.append((name, 'replay', o))     # bytes of o stored under this name
        out.append((name, 'delete', None))
    return out


def apply(objs, dmg):
    name, kind, p = dmg
    if name not in objs:
        return
    data = objs[name]
    if kind == 'flip':
        o, bit = p
        if o < len(data):
            objs[name] = data[:o] + bytes([data[o] ^ (1 << bit)]) + data[o + 1:]
    elif kind == 'truncate':
        objs[name] = data[:p]
    elif kind == 'extend':
        objs[name] = data + bytes(range(1, p + 1))
    elif kind == 'swap':
        if p in objs:
            objs[name], objs[p] = objs[p], objs[name]
    elif kind == 'replay':
        if p in objs:
            objs[name] = objs[p]
    elif kind == 'delete':
        del objs[name]


def run_case(case):
    H = history.History(case, 'c04', ('store',))
    W = H.W
    if case.get('big'):
        W.env.block_size = 128_000      # (megabytes in 1-byte transfer blocks would only burn scheduler steps)
        H.probe('megabyte_chunks')
    evaluations = 0
    digests = set()
    samples = []
    try:
        try:
            H.setup()
        except history.Violation as v:
            return {'violations': [{'cls': v.cls, 'msg': v.msg, 'sig': v.sig}], 'digest': W.digest()}
        for i, op in enumerate(case['ops']):
            H.opi = i
            H.step(op)
            if H.viol:
                for v in H.viol:
                    v['cls'] = 'prefix-' + v['cls']
                return H.result()
        u = case['reader']
        if not H.live(readable_by=u):
            res = H.result()
            res['nontrivial'] = False
            return res
        rng = substream(case['damage_seed'], 'damage')
        nonce_len = H.refs[0].aead.nonce_bytes if H.enc else 0
        base = W.state.copy()
        alld = damages_for(base.objects, rng, nonce_len)
        singles = alld
        if len(singles) > case['budget']:
            singles = rng.sample(alld, case['budget'])
        plans = [[d] for d in singles]
        for _ in range(max(2, len(plans) // 12)):
            plans.append(rng.sample(alld, 2))
        # warm cache with the undamaged snapshots
        warm = W.dir / 'cache-warm'
        wc = copy.copy(H.clients[u])
        wc.cache_dir = str(warm)
        r = W.list_snapshots(wc, H.opts)
        want_all = H.expected_restore(u, None, None)
        for pi, plan in enumerate(plans):
            H.opi = f'damage {pi}'
            st = base.copy()
            damaged_snaps = set()
            for d in plan:
                apply(st.objects, d)
                H.probe(d[1] if len(plan) == 1 else 'pair')
                if d[0].startswith('snapshots/'):
                    damaged_snaps.add(d[0])
                if d[1] == 'swap' and d[2].startswith('snapshots/'):
                    damaged_snaps.add(d[2])
            if st.objects == base.objects:
                continue
            mode = ('none', 'cold', 'warm')[pi % 3]
            client = copy.copy(H.clients[u])
            cold = W.dir / 'cache-cold'
            shutil.rmtree(cold, ignore_errors=True)
            if mode == 'cold':
                client.cache_dir = str(cold)
            elif mode == 'warm':
                client.cache_dir = str(warm)
                H.probe('warm_cache')
            target = W.dir / 'out'
            shutil.rmtree(target, ignore_errors=True)
            if pi % 5 == 4 and mode == 'none':
                # one long-lived Repository object: a successful restore, then the damage, then another restore
                # through the same object (library use; whatever the first restore learned must not vouch for new bytes)
                st = base.copy()
                pre_target = W.dir / 'out-before-damage'
                shutil.rmtree(pre_target, ignore_errors=True)

                async def two_restores(repo, plan=plan, st=st):
                    from pathlib import Path
                    await repo.restore(path=Path(pre_target))
                    for d in plan:
                        apply(st.objects, d)
                    try:
                        r2 = await repo.restore(path=Path(target))
                    except Exception:  # noqa
                        # the caller tries once more through the same object: a failed attempt must not
                        # turn the next one into a silent success
                        H.probe('same_instance_retry_after_failure')
                        shutil.rmtree(target, ignore_errors=True)
                        r2 = await repo.restore(path=Path(target))
                    return {'files': r2.files}
                r = W.run(client, two_restores, H.opts, state=st)
                H.probe('same_instance_after_damage')
                shutil.rmtree(pre_target, ignore_errors=True)
            else:
                r = W.restore(client, target, H.opts, state=st)
            evaluations += 1
            pos = 'n/a'
            d0 = plan[0]
            if d0[1] == 'flip':
                n = len(base.objects[d0[0]])
                pos = 'nonce' if d0[2][0] < nonce_len else ('tail' if d0[2][0] >= n - 16 else 'body')
            digests.add((d0[0].split('/')[0], d0[1], pos, r.outcome(), len(plan), mode))
            if len(samples) < 3:
                samples.append({'damage': [(d[0][:24] + '...', d[1], d[2] if not isinstance(d[2], str) else d[2][:24] + '...') for d in plan],
                                'cache': mode, 'outcome': r.outcome(), 'exc': repr(r.exc)[:120]})
            if r.hang is not None or r.crashed:
                H.flag('restore-hang', f'restore after damage {plan} did not terminate: {r.hang}', kind=d0[1])
                break
            if r.exc is not None:
                H.probe('restore_raised')
                if mode == 'none':
                    continue
                # the user retries with the same cache directory: whatever the failed attempt left there must not
                # turn the damage into a silent success
                shutil.rmtree(target, ignore_errors=True)
                r = W.restore(client, target, H.opts, state=st)
                evaluations += 1
                H.probe('retry_same_cache')
                if r.hang is not None or r.crashed:
                    H.flag('restore-hang', f'second restore after damage {plan} did not terminate: {r.hang}', kind=d0[1])
                    break
                if r.exc is not None:
                    continue
            got = gen.read_tree(target)
            rel = lambda m: {str(harness.restored_path(target, p).relative_to(target)): v[0] for p, v in m.items()}  # noqa
            gotc = {k: v[0] for k, v in got.items()}
            allowed = [rel(want_all)]
            if damaged_snaps:
                # each damaged snapshot object either became invisible (like a deletion) or is still
                # served intact from the warm cache: any subset may be missing
                import itertools
                ds = sorted(damaged_snaps)
                for k in range(1, len(ds) + 1):
                    for gone in itertools.combinations(ds, k):
                        keep = [s for s in H.live(readable_by=u) if s.loc not in gone]
                        saved = H.snaps
                        H.snaps = keep + [s for s in saved if not s.alive]
                        allowed.append(rel(H.expected_restore(u, None, None)))
                        H.snaps = saved
            if gotc == allowed[0]:
                H.probe('restore_ok_intact')
            elif gotc in allowed:
                H.probe('restore_ok_without_damaged_snapshot')
            else:
                bad = sorted(k for k in set(gotc) | set(allowed[0]) if gotc.get(k) != allowed[0].get(k))
                H.flag('silent-corruption', f'after damage {plan} (cache: {mode}) restore reported success but wrote different content: '
                       f'{[(k.rsplit("/", 1)[-1], None if k not in gotc else len(gotc[k]), None if k not in allowed[0] else len(allowed[0][k])) for k in bad[:4]]}',
                       kind=d0[1], obj=d0[0].split('/')[0], encrypted=H.enc)
                break
        res = H.result()
        res['evaluations'] = max(evaluations, 1)
        res['digests'] = [repr(d) for d in digests]
        res['nontrivial'] = evaluations > 0
        res['sample'] = {'history': res['sample']['ops'], 'encrypted': H.enc, 'objects': len(base.objects), 'damage_cases': evaluations,
                         'examples': samples}
        return res
    finally:
        W.close()


def shrink(case):
    for c in history.shrink_history(case):
        yield c
    if case['budget'] > 20:
        c = copy.deepcopy(case)
        c['budget'] = case['budget'] // 2
        yield c

"""C17  Accepted settings always yield a usable repository and working keys."""
import copy
import os

from sim import gen, harness, world
from sim.core import substream

PROP = 'C17'
TECHNIQUE = 'deterministic simulation: settings swarm (valid and invalid) with fresh-process usability oracle and cross/near-miss unlock attempts'
LEVEL = 'exploration'
RULE = ('one case = a settings dictionary for init drawn from the documented primitives and parameters with seeded defects '
        '(out-of-range, mistyped: float / negative / bool / string, unknown members, adapters of the wrong kind) and a chain of '
        '0..3 add-key invocations (independent / shared / clone, KDF parameters incl. invalid ones). Oracle: a rejected init or '
        'add-key leaves the store journal empty; an accepted one lets a FRESH simulated process (only the store and the emitted key '
        'survive) unlock, snapshot one small file and restore it byte-identically; every produced key unlocks with its own password '
        'and with no other produced password; in a quarter of the cases everything goes through the per-user cache directory, with which a second repository of the other kind (unencrypted / encrypted) was created right after ours. distinct_nontrivial = distinct (settings, outcome) event-log digests')
COMPONENTS = {
    'real': ['replicat.repository.Repository (init, add_key, unlock, snapshot, restore)', 'replicat.utils.adapters (from_config, adapter constructors)'],
    'stub': ['OS thread scheduling', 'clocks', 'os.urandom', 'object store (SimStore)'],
}
ASSUMPTIONS = ['scrypt n capped at 2**10 (cost)', 'the probe file has a single chunk, so tiny digest sizes cannot collide']
PROBES = ['near_miss_unlock_tried', 'init_rejected', 'init_accepted', 'addkey_rejected', 'addkey_accepted', 'cross_unlock_tried', 'foreign_repository_in_cache', 'key_written_over_longer_file', 'kdf_costlier_than_shipped_default']
# a fifth of the budget runs again under `python -O`: validation of settings must not be an assert
ENV_VARIANT = {'PYTHONOPTIMIZE': '1'}
VARIANT_SHARE = 0.2
TIERS = {'quick': {'budget_s': 60, 'batch': 20}, 'thorough': {'budget_s': 600, 'batch': 40}}

BAD_INTS = [0, -1, -64, 1, 3, 7, 8.5, 64.0, '64', True, None, 10**6, 4097]


def _maybe_bad(rng, good, p=0.25, extra=()):
    if rng.random() < p:
        return rng.choice(BAD_INTS + list(extra))
    return good


def gen_settings(rng):
    s = {}
    defect = rng.random() < 0.65
    p = 0.3 if defect else 0.0
    k = rng.random()
    if k < 0.85:
        name = rng.choice(['blake2b', 'blake2b', 'sha2', 'sha3']) if rng.random() >= p / 2 else rng.choice(['scrypt', 'gclmulchunker', 'aes_gcm', 'chacha20_poly1305', 'md5', ''])
        h = {'name': name}
        if name == 'blake2b' or rng.random() < 0.1:
            h['length'] = _maybe_bad(rng, rng.choice([1, 2, 16, 20, 32, 64]), p, [65, 100, 128])
        if name in ('sha2', 'sha3') or rng.random() < 0.05:
            h['bits'] = _maybe_bad(rng, rng.choice([224, 256, 384, 512]), p, [255, 513, 128])
        if rng.random() < p / 3:
            h['salt'] = 'x'
        s['hashing'] = h
    if rng.random() < 0.85:
        mx = rng.choice([4, 8, 16, 64, 100, 128, 4096, 5_120_000])
        mn = rng.choice([1, 4, mx // 2 or 1, mx])
        c = {'min_length': _maybe_bad(rng, mn, p, [mx + 1]), 'max_length': _maybe_bad(rng, mx, p, [2, 5])}
        if rng.random() < p / 2:
            c['name'] = rng.choice(['sha2', 'blake2b', 'gclmulchunker', 'scrypt', 'fastcdc'])
        if rng.random() < 0.1:
            del c[rng.choice(['min_length', 'max_length'])]
        s['chunking'] = c
    k = rng.random()
    if k < 0.3:
        s['encryption'] = None
    elif k < 0.9:
        e = {}
        if rng.random() < 0.8:
            name = rng.choice(['aes_gcm', 'aes_gcm', 'chacha20_poly1305']) if rng.random() >= p / 2 else rng.choice(['blake2b', 'scrypt', 'aes', 'sha2'])
            c = {'name': name}
            if name == 'aes_gcm' and rng.random() < 0.7:
                c['key_bits'] = _maybe_bad(rng, rng.choice([128, 192, 256]), p, [100, 512, 129])
            if name == 'aes_gcm' and rng.random() < 0.6:
                c['nonce_bits'] = _maybe_bad(rng, rng.choice([64, 96, 128, 256, 1024]), p, [8, 56, 100, 2048, 4096])
            if name == 'chacha20_poly1305' and rng.random() < p:
                c['key_bits'] = 128
            e['cipher'] = c
        if rng.random() < 0.9:
            e['kdf'] = gen_kdf(rng, p)
        if rng.random() < p / 3:
            e[rng.choice(['mac', 'shared_kdf', 'foo'])] = {'name': 'blake2b'}
        s['encryption'] = e
    if rng.random() < p / 3:
        s[rng.choice(['compression', 'hash', 'Hashing'])] = {'name': 'x'}
    if rng.random() < p / 4:
        s[rng.choice(['hashing', 'chunking'])] = rng.choice(['blake2b', 5, ['a']])
    return s


def gen_kdf(rng, p):
    name = rng.choice(['scrypt', 'scrypt', 'scrypt', 'blake2b']) if rng.random() >= p / 2 else rng.choice(['blake2b', 'sha2', 'aes_gcm', 'argon2'])
    k = {'name': name}
    if name == 'scrypt':
        k['n'] = _maybe_bad(rng, rng.choice([2, 4, 8, 16, 1024]), p, [3, 6, 1000])
        if rng.random() < 0.5:
            k['r'] = _maybe_bad(rng, rng.choice([1, 2, 8]), p)
        if rng.random() < 0.3:
            k['p'] = _maybe_bad(rng, rng.choice([1, 2]), p)
        if rng.random() < p / 2:
            k['length'] = rng.choice([16, 32, 7])
    return k


def gen_case(seed, tier):
    rng = substream(seed, 'c17')
    keys = []
    for i in range(rng.choice([0, 0, 1, 2, 3])):
        kind = rng.choice(['independent', 'shared', 'clone'])
        ks = None
        if rng.random() < 0.7:
            ks = {'encryption': {'kdf': gen_kdf(rng, 0.3 if rng.random() < 0.5 else 0.0)}}
            if rng.random() < 0.08:
                ks['encryption']['cipher'] = {'name': 'aes_gcm'}
            if rng.random() < 0.05:
                ks['hashing'] = {'name': 'sha2'}
        keys.append({'kind': kind, 'parent': rng.randrange(0, i + 1), 'settings': ks})
    long_pw = rng.random() < 0.35
    if substream(seed, 'c17-costly').random() < 1 / 3000:
        # a work factor above the shipped default (n*r*p > 2**23; seconds per derivation): accepted, hence usable
        return {'seed': seed, 'sched_seed': seed, 'settings': {'encryption': {'kdf': {'name': 'scrypt', 'n': 16384, 'r': 8, 'p': 65}}}, 'keys': [],
                'long_passwords': False, 'flavour': 'async', 'N': 1, 'opts': world.SchedOpts.sequential().as_dict(), 'probe_size': 3,
                'foreign_cache': False, 'key_files': False, 'costly': True}
    return {'seed': seed, 'sched_seed': seed, 'settings': gen_settings(rng), 'keys': keys, 'long_passwords': long_pw,
            'flavour': rng.choice(['sync', 'async']), 'N': rng.choice([1, 2, 3]),
            'opts': world.SchedOpts.swarm(rng).as_dict(),
            'probe_size': rng.choice([0, 1, 3, 4, 5]),
            'foreign_cache': substream(seed, 'c17-cache').random() < 0.25,
            'key_files': substream(seed, 'c17-keyfiles').random() < 0.3}


def _safe_for_sim(settings, costly=False):
    """Keep the scrypt cost bounded (n <= 2**10, r <= 8, p <= 8) in all but a few cases per run."""
    if costly:
        return settings
    try:
        k = settings['encryption']['kdf']
        if isinstance(k.get('n'), int) and not isinstance(k.get('n'), bool) and k['n'] > 1024:
            k['n'] = 1024
        for f in ('r', 'p'):
            if isinstance(k.get(f), int) and not isinstance(k.get(f), bool) and k[f] > 8:
                k[f] = 8
    except (KeyError, TypeError, AttributeError):
        pass
    return settings


def run_case(case):
    import replicat.utils.adapters as A
    # the shipped default scrypt work factor (n=2**20: 1 GiB, seconds per derivation) is reduced
    # for the simulation; everything else about the defaults is as shipped
    saved = dict(A.scrypt.__init__.__kwdefaults__)
    A.scrypt.__init__.__kwdefaults__['n'] = 4
    try:
        return _run_case(case)
    finally:
        A.scrypt.__init__.__kwdefaults__.update(saved)


def _run_case(case):
    viol, probes = [], {}
    W = harness.World(case['sched_seed'], 'c17', flavour=case['flavour'], lat_kind='uniform', lat=0.005)
    try:
        opts = world.SchedOpts.from_dict(case['opts'])
        settings = _safe_for_sim(copy.deepcopy(case['settings']), case.get('costly'))
        if case.get('costly'):
            probes['kdf_costlier_than_shipped_default'] = 1
        enc_requested = settings.get('encryption', {}) is not None
        # long pass-phrases that agree on their first 64+ bytes (key files, sentences)
        stem = (b'correct horse battery staple ' * 4)[:70] if case.get('long_passwords') else b''
        cache = str(W.dir / 'cache') if case.get('foreign_cache') else None
        h = settings.get('hashing') if isinstance(settings.get('hashing'), dict) else {}
        if isinstance(h.get('length'), int) and h['length'] < 8:      # (True counts: it is accepted as a length of 1)
            # digests of a few bytes collide for real (1 in 256 for length 1); the cache verifies entries by digest,
            # and "hash collisions do not occur" is an assumption of every check
            cache = None
        owner = world.Client('owner', password=stem + ('owner password' + (' ²№ Ｂ' if case['sched_seed'] % 3 == 0 else '')).encode(), concurrent=case['N'], cache_dir=cache)
        kp = None
        if case.get('key_files'):
            # keys go to a file (-o), always the same path, which holds an older and longer file already;
            # the key a user works with is what that file contains afterwards
            kp = W.dir / 'the.key'
            kp.write_bytes(b'{"an older key file": "' + b'k' * 4000 + b'"}')
            probes['key_written_over_longer_file'] = 1
        r = W.init(owner, settings, opts, key_output_path=kp)
        if kp is not None and r.ok and r.value['key'] is not None:
            owner.key = kp.read_bytes()
        journal = list(W.state.journal)
        if r.hang is not None or r.crashed:
            viol.append({'cls': 'init-hang', 'sig': {}, 'msg': f'init did not terminate: {r.outcome()} {r.hang!r}'})
            return _res(W, viol, probes, case, 'hang')
        if not r.ok:
            probes['init_rejected'] = 1
            if journal:
                viol.append({'cls': 'rejected-but-mutated', 'sig': {'cmd': 'init', 'exc': type(r.exc).__name__},
                             'msg': f'init raised {r.exc!r} but the backend was written to: {journal[:3]}'})
            return _res(W, viol, probes, case, 'rejected:' + type(r.exc).__name__)
        probes['init_accepted'] = 1
        clients = [owner]
        encrypted = r.value['key'] is not None
        if cache is not None:
            # the same user creates another repository of the other kind afterwards, with the same (per-user) cache directory
            W2 = harness.World(case['sched_seed'] ^ 0x7777, 'c17b', flavour=case['flavour'], lat_kind='zero', scratch=False)
            W2.dir = W.dir
            other = world.Client('other', password=None if encrypted else b'other password', concurrent=1, cache_dir=cache)
            r2 = W2.init(other, {'encryption': None} if encrypted else {'encryption': {'kdf': {'name': 'scrypt', 'n': 2, 'r': 1}}},
                         world.SchedOpts.sequential())
            if r2.ok:
                probes['foreign_repository_in_cache'] = 1
        if not _usable(W, owner, case, opts, viol, 'after init', settings):
            return _res(W, viol, probes, case, 'accepted-unusable')
        # ---- add-key chain
        if encrypted:
            for i, k in enumerate(case['keys']):
                parent = clients[k['parent'] % len(clients)]
                new = world.Client(f'k{i}', password=stem + f'password of key {i}'.encode(), concurrent=case['N'], cache_dir=cache)
                before = len(W.state.journal)
                ks = _safe_for_sim(copy.deepcopy(k['settings'])) if k['settings'] else None
                r = W.add_key(parent, new, shared=k['kind'] == 'shared', clone=k['kind'] == 'clone', settings=ks, opts=opts, key_output_path=kp)
                if kp is not None and r.ok:
                    new.key = kp.read_bytes()
                if r.hang is not None or r.crashed:
                    viol.append({'cls': 'init-hang', 'sig': {'cmd': 'add-key'}, 'msg': f'add-key did not terminate: {r.outcome()}'})
                    break
                if not r.ok:
                    probes['addkey_rejected'] = probes.get('addkey_rejected', 0) + 1
                    if len(W.state.journal) != before:
                        viol.append({'cls': 'rejected-but-mutated', 'sig': {'cmd': 'add-key', 'exc': type(r.exc).__name__},
                                     'msg': f'add-key raised {r.exc!r} but the backend was written to'})
                        break
                    continue
                probes['addkey_accepted'] = probes.get('addkey_accepted', 0) + 1
                if len(W.state.journal) != before:
                    viol.append({'cls': 'addkey-mutated-backend', 'sig': {}, 'msg': 'add-key wrote to the backend'})
                    break
                clients.append(new)
                if not _usable(W, new, case, opts, viol, f'with key {i} ({k["kind"]})', settings):
                    break
            # every key pairs with its own password only
            if not viol:
                async def noop(repo):
                    return True
                for a in clients:
                    near = [a.password[:-1], a.password + b'\n', a.password[:64], a.password[:-1] + bytes([a.password[-1] ^ 1])] + gen.look_alike_passwords(a.password)
                    if case.get('costly'):
                        near = near[:1]       # (each try costs seconds)
                    for pw in near:
                        if pw == a.password or not pw:
                            continue
                        probes['near_miss_unlock_tried'] = probes.get('near_miss_unlock_tried', 0) + 1
                        r = W.run(world.Client('x', password=pw, key=a.key, concurrent=1), noop, opts)
                        if r.ok:
                            viol.append({'cls': 'key-unlocks-with-foreign-password', 'sig': {'near_miss': True},
                                         'msg': f'key of {a.name} (password of {len(a.password)} bytes) also unlocks with a different password of {len(pw)} bytes'})
                            break
                    if viol:
                        break
            if not viol:
                for a in clients:
                    for b in clients:
                        if a is b or a.password == b.password:
                            continue
                        probes['cross_unlock_tried'] = probes.get('cross_unlock_tried', 0) + 1
                        c = world.Client('x', password=b.password, key=a.key, concurrent=1)

                        async def act(repo):
                            return True
                        r = W.run(c, act, opts)
                        if r.ok:
                            viol.append({'cls': 'key-unlocks-with-foreign-password', 'sig': {},
                                         'msg': f'key of {a.name} unlocks with the password of {b.name}'})
                            break
                    if viol:
                        break
        return _res(W, viol, probes, case, 'accepted')
    finally:
        W.close()


def _usable(W, client, case, opts, viol, when, settings):
    """A fresh process (only the store and the key survive) backs up and restores a small file."""
    src = W.dir / 'probe-src'
    src.mkdir(exist_ok=True)
    data = bytes(range(1, 1 + case['probe_size']))
    (src / 'probe.bin').write_bytes(data)
    os.utime(src / 'probe.bin', ns=(1_500_000_000_000_000_000, 1_500_000_000_123_456_789))
    r = W.snapshot(client, [src / 'probe.bin'], opts)
    if not r.ok:
        viol.append({'cls': 'accepted-but-unusable', 'sig': {'step': 'snapshot', 'exc': type(r.exc).__name__ if r.exc else r.outcome(),
                                                             'where': _where(settings)},
                     'msg': f'settings {settings!r} were accepted, but {when} a fresh process cannot snapshot: {r.outcome()} {r.exc or r.hang!r}'})
        return False
    target = W.dir / f'probe-out-{len(W.digests)}'
    r2 = W.restore(client, target, opts, snapshot_regex='^' + r.value['name'] + '$')
    got = gen.read_tree(target)
    want_key = str(harness.restored_path(target, src / 'probe.bin').relative_to(target))
    if not r2.ok or set(got) != {want_key} or got[want_key][0] != data:
        viol.append({'cls': 'accepted-but-unusable', 'sig': {'step': 'restore', 'exc': type(r2.exc).__name__ if r2.exc else r2.outcome(),
                                                             'where': _where(settings)},
                     'msg': f'settings {settings!r} accepted, snapshot ok, but {when} restore gives {r2.outcome()} {r2.exc!r} / '
                            f'{ {k: v[0][:8] for k, v in got.items()} }'})
        return False
    return True


def _where(settings):
    """Which section carries a non-standard value (used to tell findings apart)."""
    out = []
    h = settings.get('hashing')
    if isinstance(h, dict):
        if h.get('name', 'blake2b') not in ('blake2b', 'sha2', 'sha3'):
            out.append('hashing.name')
        ln = h.get('length')
        if 'length' in h and not (isinstance(ln, int) and not isinstance(ln, bool) and 1 <= ln <= 64):
            out.append('hashing.length')
    c = settings.get('chunking')
    if isinstance(c, dict):
        if c.get('name', 'gclmulchunker') != 'gclmulchunker':
            out.append('chunking.name')
        for f in ('min_length', 'max_length'):
            v = c.get(f, 1)
            if not (isinstance(v, int) and not isinstance(v, bool) and v >= 1):
                out.append('chunking.' + f)
        mn, mx = c.get('min_length', 128_000), c.get('max_length', 5_120_000)
        if not out and isinstance(mn, int) and isinstance(mx, int) and ((mn + 3) & -4) > mx:
            out.append('chunking.no-aligned-length')
    return ','.join(out) or 'other'


def _res(W, viol, probes, case, outcome):
    return {'violations': viol, 'digest': W.digest() + outcome, 'probes': probes, 'sim_s': W.sim_s, 'steps': W.sim_steps,
            'nontrivial': True, 'sample': {'settings': case['settings'], 'keys': [(k['kind'], k['settings']) for k in case['keys']], 'outcome': outcome}}


def shrink(case):
    if case['keys']:
        c = copy.deepcopy(case)
        c['keys'].pop()
        yield c
    s = case['settings']
    for k in list(s):
        c = copy.deepcopy(case)
        del c['settings'][k]
        yield c
        if isinstance(s[k], dict):
            for kk in list(s[k]):
                c = copy.deepcopy(case)
                del c['settings'][k][kk]
                yield c
                if isinstance(s[k][kk], dict):
                    for k3 in list(s[k][kk]):
                        c = copy.deepcopy(case)
                        del c['settings'][k][kk][k3]
                        yield c

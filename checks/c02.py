"""C02  No history of snapshot/delete/clean ever damages a remaining snapshot."""
from sim import history

PROP = 'C02'
TECHNIQUE = 'deterministic simulation: seeded multi-user command histories (incl. overlapping commands) under seeded schedules; independent format reader + restore of every remaining snapshot'
LEVEL = 'exploration'
RULE = ('one case = a seeded history (3..12 commands) of snapshot / delete / clean / restore / listings by 1..3 users of one '
        'repository (unencrypted, same family via shared/clone keys, independent keys) over overlapping file sets, '
        'non-destructive commands optionally overlapping in time (two Repository objects on one loop); users are processes per command or long-lived programs keeping their Repository object (per user, or one object for all with unlock() switching); a share of the histories starts with 10..13 snapshots at concurrency 1 or runs over the real B2 / S3 adapters on the fake services; after every command '
        'an independent reader decodes the whole store (every referenced chunk exists and hashes to its digest, listed == '
        'model), the operation journal shows no delete of a referenced chunk, and after every destructive command and at the '
        'end every remaining snapshot is restored by its owner and compared with the captured contents. '
        'distinct_nontrivial = distinct event-log digests among histories with >= 1 snapshot')
COMPONENTS = {
    'real': ['replicat.repository.Repository (all commands)', 'replicat.utils', 'replicat.utils.adapters', 'src/adapters.cpp (shim build)'],
    'stub': ['OS thread scheduling', 'clocks', 'os.urandom', 'object store (SimStore)'],
    'reference': ['sim/ref_format.py (independent reader)', 'RefHistory model in sim/history.py'],
}
ASSUMPTIONS = ['destructive commands run alone (README)', 'crash-free histories (crashes are C03/C08)', 'scrypt work factor reduced']
PROBES = ['delete', 'clean', 'overlap_snapshot', 'overlap_restore', 'restore_all']
TIERS = {'quick': {'budget_s': 80, 'batch': 10}, 'thorough': {'budget_s': 900, 'batch': 20}}
ORACLES = ('store', 'journal', 'restore_all')


def gen_case(seed, tier):
    return history.gen_history(seed, 'c02', max_users=4 if tier == 'thorough' else 3, nops=(3, 24) if tier == 'thorough' else (3, 12), destructive=True, overlap=True, reads=True, many=0.08, services=True)


def run_case(case):
    return history.History(case, 'c02', ORACLES).run()


def shrink(case):
    return history.shrink_history(case)

"""C03  Interrupted commands leave a consistent, usable repository."""
import copy
import shutil

import os

from sim import fsseam, gen, harness, history, ref_format, store, world
from sim.install import CTX
from sim.core import substream

PROP = 'C03'
TECHNIQUE = 'deterministic simulation with fault injection: enumeration of all crash points and all single permanent call failures of a sampled victim command (SimStore commits and Local syscalls), post-fault usability oracle'
LEVEL = 'fault_enumeration'
RULE = ('[users are processes per command or long-lived programs that keep one Repository object across commands] one case = a fault-free prefix history (1..3 commands, 1..2 users) and one victim command (snapshot / delete / clean) under a '
        'seeded schedule. The victim is first run to completion to count its backend mutation commits M and backend calls C; it is then '
        're-run from the identical pre-state (store, RNG streams, clock) once per crash index 0..M-1 (all of them when M <= 48, else a '
        'seeded sample incl. first/last; calls in flight at the crash instant independently applied or dropped) and once per call index '
        'with that call failing for good (not applied, or applied with the acknowledgement lost); for delete / clean additionally once per stored '
        'snapshot object with that object temporarily unreadable (download fails, exists denies it, listing still shows it). After each fault, fresh fault-free '
        'processes must find: listed snapshots = acknowledged ones (+ the victim\'s if its object exists / - a subset of the deleted), '
        'every listed snapshot complete under the independent reader, list + new snapshot + clean succeed, afterwards the family\'s '
        'chunk objects == referenced chunks and every listed snapshot restores to its captured contents. One third of the cases run on the real '
        'Local adapter over the FS seam: crash points are then the adapter\'s syscalls (torn writes included) and no file whose content is '
        'incomplete may be visible under a name that listing / exists / download would show. evaluations = fault points '
        'executed; distinct_nontrivial = distinct post-fault store states (digest of names) over all fault points')
COMPONENTS = {
    'real': ['replicat.repository.Repository (snapshot, delete_snapshots, clean, restore, list_snapshots)', 'replicat.utils.adapters', 'src/adapters.cpp (shim)',
             'replicat.backends.local.Local incl. backoff (Local profile, about one third of the cases)'],
    'stub': ['OS thread scheduling', 'clocks', 'os.urandom', 'object store (SimStore: atomic objects, crash = freeze at a commit point)',
             'file-system syscalls under Local (FS seam: crash before any syscall, torn write, persistent errno; tracks files whose content is incomplete)'],
    'reference': ['sim/ref_format.py', 'sim/history.py model'],
}
ASSUMPTIONS = ['process-kill crash model (completed backend mutations / syscalls persist, a write in progress may be torn; no power-loss model)',
               'enumeration is complete per sampled victim run, sampled over runs']
PROBES = ['local_backend', 'torn_write', 'fs_errno', 'victim_snapshot', 'victim_delete', 'victim_clean', 'crash', 'crash_inflight_commit', 'fail_before', 'fail_after', 'unavailable', 'orphans_collected', 'victim_snapshot_visible_after_lost_ack']
TIERS = {'quick': {'budget_s': 55, 'batch': 1}, 'thorough': {'budget_s': 900, 'batch': 4}}
MAX_POINTS = 48


def gen_case(seed, tier):
    rng = substream(seed, 'c03')
    pre = history.gen_history(seed, 'c03-prefix', max_users=2, nops=(1, 4), destructive=False, reads=False)
    # make sure there is something to delete / clean
    kind = rng.choice(['snapshot', 'snapshot', 'delete', 'delete', 'clean'])
    paths = history.gen_paths(rng, 4)
    fs = history.gen_fileset(rng, paths, len(pre['contents']), None)
    victim = {'op': kind, 'u': rng.randrange(len(pre['users']))}
    if kind == 'snapshot':
        victim.update({'files': fs, 'at': 10**6, 'mt': 1_700_000_000, 'note': None})
    elif kind == 'delete':
        victim['pick'] = [rng.randrange(8) for _ in range(rng.choice([1, 2]))]
        if rng.random() < 0.6:
            # one delete naming two snapshots of the caller that share chunks nobody else references
            shared = history.gen_fileset(rng, paths, len(pre['contents']), None)
            for j in range(2):
                f2 = dict(shared)
                if rng.random() < 0.5:
                    f2[rng.choice(paths)] = rng.randrange(len(pre['contents']))
                pre['ops'].append({'op': 'snapshot', 'u': victim['u'], 'files': f2, 'at': 10**6 - 10 + j, 'mt': 1_650_000_000 + j, 'note': None})
            victim['pick'] = [-1, -2]
    else:
        # clean is only interesting with orphans around: an interrupted snapshot first
        pre['ops'].append({'op': 'snapshot', 'u': victim['u'], 'files': fs, 'at': 10**6 - 1, 'mt': 1_600_000_000, 'note': None,
                           'crash_at': rng.randrange(1, 6)})
    pre['victim'] = victim
    pre['follow'] = {'files': history.gen_fileset(rng, paths, len(pre['contents']), fs), 'mt': 1_800_000_000}
    pre['sample_seed'] = rng.randrange(1 << 30)
    pre['backend'] = rng.choice(['sim', 'sim', 'local'])
    if pre['backend'] == 'local':
        pre['flavour'] = 'sync'
        if rng.random() < 0.6:
            # identical chunks in flight at the same time: several workers upload the same location concurrently
            import base64
            mx = rng.choice([16, 32, 64])
            pre['settings']['chunking'] = {'min_length': mx, 'max_length': mx}
            block = rng.randbytes(mx)
            pre['contents'][0] = base64.b64encode(block * rng.choice([4, 6, 9]) + rng.randbytes(5)).decode()
            for u in pre['users']:
                u['N'] = rng.choice([2, 3, 4])
            if victim['op'] != 'snapshot' and rng.random() < 0.7:
                victim = pre['victim'] = {'op': 'snapshot', 'u': victim['u'], 'files': fs, 'at': 10**6, 'mt': 1_700_000_000, 'note': None}
            if victim['op'] == 'snapshot':
                victim['files'] = dict(victim['files'])
                victim['files'][paths[0]] = 0
    if pre['victim']['op'] == 'snapshot' and substream(seed, 'c03-rate').random() < 0.3:
        # the victim runs under a bandwidth limit (the limiter sits between the chunks and the backend's streams)
        pre['victim']['rate_limit'] = substream(seed, 'c03-rate2').choice([2000, 20000, 10**6])
    pre['step_budget'] = 300_000 if tier == 'quick' else 3_000_000
    return pre


class LocalUniverse:
    """The repository lives in a real directory behind the real Local adapter; every syscall of the
    adapter goes through the FS seam (crash / torn write / errno injection)."""

    def __init__(self, H):
        self.H = H
        self.root = H.W.dir / 'repo'
        self.root.mkdir()
        self.fs = fsseam.FS()
        self.next_plan = None
        H.W.make_backend_override = self.make
        H.W.after_run = self.after
        H.W.live_renew = self.renew

    def make(self):
        self.fs = self.next_plan or fsseam.FS(order_rng=None)
        self.next_plan = None
        return fsseam.make_local(self.root, self.fs)

    def renew(self, backend):
        # next command of a long-lived process on its existing Local object
        self.fs = self.next_plan or fsseam.FS(order_rng=None)
        self.next_plan = None
        CTX.fs = self.fs

    def after(self, r):
        CTX.fs = None
        self.last_fs = self.fs
        self.H.W.state.objects = self.read()

    def read(self):
        out = {}
        for dp, dn, fn in os.walk(self.root):
            for f in fn:
                p = os.path.join(dp, f)
                rel = os.path.relpath(p, self.root)
                if not rel.endswith('.tmp'):
                    with open(p, 'rb') as fh:
                        out[rel] = fh.read()
        return out

    def save(self):
        out = {}
        for dp, dn, fn in os.walk(self.root):
            for f in fn:
                p = os.path.join(dp, f)
                with open(p, 'rb') as fh:
                    out[os.path.relpath(p, self.root)] = fh.read()
        return out

    def load(self, content):
        import shutil as _sh
        _sh.rmtree(self.root, ignore_errors=True)
        self.root.mkdir()
        for rel, data in content.items():
            p = self.root / rel
            p.parent.mkdir(parents=True, exist_ok=True)
            p.write_bytes(data)
        self.H.W.state.objects = self.read()


class Fork(history.Fork):
    def __init__(self, H, local=None):
        super().__init__(H)
        self.local = local
        self.dir0 = local.save() if local is not None else None

    def restore(self):
        super().restore()
        if self.local is not None:
            self.local.load(self.dir0)


def run_victim(H, victim, profile):
    """-> (ProcResult or None, description of what the victim touches)"""
    W = H.W
    u = victim['u']
    live = u in H.live_users      # the victim and what follows run in one long-lived process of u
    if live:
        H.probe('victim_in_live_process')
    if victim['op'] == 'snapshot':
        d, files = H.materialize(victim)
        H.set_clock(victim)
        r = W.snapshot(H.clients[u], [d], H.opts, profile=profile, live=live, rate_limit=victim.get('rate_limit'))
        if victim.get('rate_limit'):
            H.probe('victim_rate_limited')
        return r, {'files': files}
    if victim['op'] == 'delete':
        mine = H.live(u)
        if not mine:
            return None, {}
        victims = []
        for k in victim['pick']:
            s = mine[k % len(mine)]
            if s not in victims:
                victims.append(s)
        r = W.delete(H.clients[u], [s.name for s in victims], H.opts, profile=profile, live=live)
        return r, {'victims': victims}
    r = W.clean(H.clients[u], H.opts, profile=profile, live=live)
    return r, {}


def evaluate(H, case, victim, r, info, fault, before_objs):
    """Oracle after one fault point; appends to H.viol."""
    W = H.W
    u = victim['u']
    objs = W.state.objects
    sig = {'victim': victim['op'], 'fault': fault[0]}
    listed = {k for k in objs if k.startswith('snapshots/')}
    base = {s.loc: s for s in H.snaps if s.alive}
    # ---- which snapshots may / must be visible
    if fault[0] != 'crash':
        if r.hang is not None:
            H.flag('hang-after-failure', f'{victim["op"]} with backend call #{fault[1]} failing ({fault[2]}) did not terminate: {r.hang}', **sig)
            return
        if r.exc is None and not r.crashed:
            b = r.backend
            if b is not None and getattr(b, 'failed_call_desc', None) is not None:
                H.flag('failure-swallowed', f'{victim["op"]}: backend call {b.failed_call_desc} failed for good ({fault[2]}) but the command reported success', **sig)
                return
    new = listed - set(base)
    if victim['op'] == 'snapshot':
        if len(new) > 1:
            H.flag('unexpected-snapshots', f'after {fault}: new snapshot objects {sorted(new)}', **sig)
            return
        if r is not None and r.ok and not new:
            H.flag('snapshot-acknowledged-but-missing', f'after {fault}: snapshot reported success but no new snapshot is listed', **sig)
            return
        for loc in new:
            name, _ = ref_format.RefRepo.parse_snapshot_location(loc)
            sm = history.SnapModel(name, loc, u, info['files'], victim['at'], None)
            H.snaps.append(sm)
            if r is not None and not r.ok:
                H.probe('victim_snapshot_visible_after_lost_ack')
        if set(base) - listed:
            H.flag('snapshot-lost', f'after {fault}: snapshots {sorted(set(base) - listed)[:2]} disappeared', **sig)
            return
    elif victim['op'] == 'delete':
        gone = set(base) - listed
        allowed = {s.loc for s in info.get('victims', [])}
        if new or not gone <= allowed:
            H.flag('snapshot-lost', f'after {fault}: snapshots gone {sorted(gone - allowed)[:2]} / new {sorted(new)[:2]}; only {sorted(allowed)[:2]} were being deleted', **sig)
            return
        for s in H.snaps:
            if s.loc in gone:
                s.alive = False
    else:
        if new or set(base) - listed:
            H.flag('snapshot-lost', f'after {fault}: clean changed the set of snapshots', **sig)
            return
    H.orphans_possible = True
    # ---- every visible snapshot is complete (independent reader)
    H.opi = f'{fault}'
    H.check_store(after=f'{victim["op"]}+{fault[0]}')
    if H.viol:
        for v in H.viol:
            v['sig'].update(sig)
        return
    # ---- the repository stays usable: list, new snapshot, clean
    seq = H.opts
    live = u in H.live_users      # same long-lived process as the victim (a new one if that crashed)
    rl = W.list_snapshots(H.clients[u], seq, live=live)
    if not rl.ok:
        H.flag('unusable-after-fault', f'after {fault}: list-snapshots fails: {rl.outcome()} {rl.exc or rl.hang!r}', step='ls', **sig)
        return
    fop = {'op': 'snapshot', 'u': u, 'files': case['follow']['files'], 'at': 2 * 10**6, 'mt': case['follow']['mt'], 'note': None, 'dir': 'follow'}
    d, files = H.materialize(fop)
    H.set_clock(fop)
    rs = W.snapshot(H.clients[u], [d], seq, live=live)
    if not rs.ok:
        H.flag('unusable-after-fault', f'after {fault}: a new snapshot fails: {rs.outcome()} {rs.exc or rs.hang!r}', step='snapshot', **sig)
        return
    sm = history.SnapModel(rs.value['name'], rs.value['location'], u, files, fop['at'], None)
    sm.ts = rs.value['data']['utc_timestamp']
    H.snaps.append(sm)
    n_before = len([k for k in W.state.objects if k.startswith('data/')])
    rc = W.clean(H.clients[u], seq, live=live)
    if not rc.ok:
        H.flag('unusable-after-fault', f'after {fault}: clean fails: {rc.outcome()} {rc.exc or rc.hang!r}', step='clean', **sig)
        return
    if len([k for k in W.state.objects if k.startswith('data/')]) < n_before:
        H.probe('orphans_collected')
    H.check_store(after='clean-after-fault')
    if H.viol:
        for v in H.viol:
            v['sig'].update(sig)
        return
    fam = H.family(u)
    have, refd = H.chunk_objs.get(fam, set()), H.referenced.get(fam, set())
    if have != refd:
        H.flag('orphans-not-collected', f'after {fault} and a clean: {len(have - refd)} unreferenced chunk objects of the family remain '
               f'({sorted(have - refd)[:2]}), {len(refd - have)} referenced missing', left=bool(have - refd), **sig)
        return
    H.check_restore_all()
    for v in H.viol:
        v['sig'].update(sig)


def run_case(case):
    victim = case['victim']
    pre = {k: v for k, v in case.items() if k not in ('victim', 'follow', 'sample_seed')}
    H = history.History(pre, 'c03', ('store',))
    H.W.live_shared = False       # with faults in play each user keeps an object of its own
    local = LocalUniverse(H) if case.get('backend') == 'local' else None
    evaluations = 0
    states = set()
    samples = []
    try:
        try:
            H.setup()
        except history.Violation as v:
            H.viol.append({'cls': v.cls, 'msg': v.msg, 'sig': v.sig})
            return H.result()
        for i, op in enumerate(pre['ops']):
            H.opi = i
            if local is not None and 'crash_at' in op:
                local.next_plan = fsseam.FS(crash_at=4 + 5 * op['crash_at'], torn_rng=substream(case['sample_seed'], f'torn-pre{i}'))
            H.step(op)
            if H.viol:
                for v in H.viol:
                    v['cls'] = 'prefix-' + v['cls']
                return H.result()
        fork = Fork(H, local)
        # ---- baseline: the victim completes; count its commit points and calls
        r, info = run_victim(H, victim, H.W.profile())
        if r is None:
            res = H.result()
            res['nontrivial'] = False
            res['evaluations'] = 0
            res['sample'] = None
            return res
        if not r.ok:
            H.flag('command-failed', f'fault-free {victim["op"]} failed: {r.outcome()} {r.exc or r.hang!r}', victim=victim['op'])
            return H.result()
        if local is not None:
            M = C = local.last_fs.n
            H.probe('local_backend')
        else:
            M, C = r.backend.commits, r.backend.calls
        base_syscalls = list(local.last_fs.log) if local is not None else []
        H.probe('victim_' + victim['op'])
        rng = substream(case['sample_seed'], 'points')
        crash_points = list(range(M))
        if M > MAX_POINTS:
            crash_points = sorted(set([0, 1, M - 2, M - 1] + rng.sample(range(M), MAX_POINTS - 4)))
        fail_points = list(range(C))
        fmax = MAX_POINTS if local is None else 16
        if C > fmax:
            fail_points = sorted(set([0, C - 1] + rng.sample(range(C), fmax - 2)))
        plan = [('crash', k, None) for k in crash_points]
        for j in fail_points:
            plan.append(('fail', j, 'before'))
        for j in fail_points[::2]:
            plan.append(('fail', j, 'after'))
        if local is None and victim['op'] in ('delete', 'clean'):
            # one snapshot object temporarily cannot be read (download fails, exists denies it) although it is still listed
            for loc in sorted(k for k in fork.state0.objects if k.startswith('snapshots/'))[:4]:
                plan.append(('unavail', loc, None))
        # fault points in seeded order, until the case's work budget (simulated scheduler steps: deterministic) is used up
        substream(case['sample_seed'], 'plan-order').shuffle(plan)
        for fault in plan:
            if H.W.sim_steps > case.get('step_budget', 10**9):
                H.probe('fault_points_cut_by_step_budget')
                break
            fork.restore()
            before = dict(H.W.state.objects)
            if local is not None:
                prof = None
                if fault[0] == 'crash':
                    local.next_plan = fsseam.FS(crash_at=fault[1], torn_rng=substream(case['sample_seed'], f'torn{fault[1]}'))
                else:
                    local.next_plan = fsseam.FS(faults={})
                    kind = base_syscalls[fault[1]][0] if fault[1] < len(base_syscalls) else 'write'
                    skip = sum(1 for k, _ in base_syscalls[:fault[1]] if k == kind)
                    # which error the file system reports is its choice: I/O error, permissions (read-only bind mount, SMB), quota ...
                    err = substream(case['sample_seed'], f'errno{fault[1]}').choice(['EIO', 'EIO', 'EACCES', 'EPERM', 'EROFS', 'EDQUOT']) if fault[2] == 'before' else 'ENOSPC'
                    H.probe('fs_errno_' + err)
                    local.next_plan.fail_next(kind, err, count=10**9, skip=skip)
            elif fault[0] == 'unavail':
                prof = H.W.profile(unavailable=[fault[1]])
            elif fault[0] == 'crash':
                prof = H.W.profile(crash_at=fault[1], crash_commit_inflight=substream(case['sample_seed'], f'inflight{fault[1]}'))
            else:
                prof = H.W.profile(fail_call=fault[1], fail_mode=fault[2])
            r, info = run_victim(H, victim, prof)
            evaluations += 1
            if fault[0] == 'crash' and not r.crashed:
                # schedule-dependent commit count: the crash index was not reached in this run
                if not r.ok:
                    H.flag('command-failed', f'{victim["op"]} failed without a fault: {r.outcome()} {r.exc!r}', victim=victim['op'])
                    break
                continue
            fired = local.last_fs.fired if local is not None else (r.backend.fired if r.backend is not None else {})
            for k, v in fired.items():
                k = k if local is None else ('crash' if k == 'crash' else 'torn_write' if k == 'torn_write' else 'fs_errno')
                H.probes[k] = H.probes.get(k, 0) + v
            if local is not None:
                # nothing incomplete may be observable under a name the adapter would show
                partial = fsseam.partial_visible(local.last_fs)
                if partial:
                    H.flag('partial-object-visible', f'after {fault}: {[os.path.relpath(p, local.root) for p in partial][:3]} hold(s) incomplete content '
                           f'but is visible to listing / exists / download', victim=victim['op'], fault=fault[0])
            evaluate(H, case, victim, r, info, fault, before)
            states.add(hash(tuple(sorted(H.W.state.objects))))
            if len(samples) < 2:
                samples.append({'fault': fault, 'victim': victim['op'], 'outcome': r.outcome(), 'objects_after': len(H.W.state.objects)})
            if H.viol:
                for v in H.viol:
                    v['sig'].setdefault('victim', victim['op'])
                    v['msg'] = f'[victim {victim["op"]} by u{victim["u"]}, fault {fault}] ' + v['msg']
                case_fault = fault
                break
        res = H.result()
        res['evaluations'] = evaluations
        res['digests'] = [f'{res["digest"]}-{s}' for s in states]
        res['sample'] = {'prefix': res['sample']['ops'], 'victim': victim['op'], 'commit_points': M, 'calls': C,
                         'fault_points_run': evaluations, 'examples': samples}
        if H.viol:
            res['violations'] = H.viol
        return res
    finally:
        H.W.close()


def shrink(case):
    for c in history.shrink_history({k: v for k, v in case.items()}):
        yield c
    v = case['victim']
    if v['op'] == 'snapshot' and len(v['files']) > 1:
        for p in list(v['files']):
            c = copy.deepcopy(case)
            del c['victim']['files'][p]
            yield c

"""C10  The chunker is a lossless, bounded, deterministic function of the stream."""
import base64
import copy

from sim import install, ref_chunker
from sim.core import substream

PROP = 'C10'
TECHNIQUE = 'deterministic simulation: seeded piece-delivery schedules and adjacent-memory contents over the freshly compiled chunker vs a pure-Python reference chunker'
LEVEL = 'exploration'
RULE = ('one case = a byte string (random / zeros / periodic / low entropy, <= 4 KiB), a 16-byte key, (min,max) with an aligned length in '
        '[min,max] (incl. min=max, max<8, unaligned max) and 4..8 seeded segmentations (single piece, one-byte pieces, empty pieces anywhere, '
        'pieces of exactly max, max+-1..3, 2*max, random); the REAL Python adapter over the freshly compiled C++ cuts each segmentation three '
        'times with the bytes adjacent to the buffer (the <=3 bytes the window load may touch) set to zeros, 0xFF and seeded values and '
        'interleaved with calls on other chunker instances, with a second stream being cut by the same adapter object, and after earlier calls on that object under another key (as a value, and through a key buffer changed in place). Oracles: concatenation = input and no empty chunk; chunks that begin more than '
        '2*max before the end have min <= len <= max and len % 4 == 0; identical chunk lists under every adjacent-memory content and '
        'repetition; chunks outside the tail zone equal the pure-Python RefChunker for every segmentation. distinct_nontrivial = distinct '
        '(params, stream digest, segmentation digest) among streams with > 2*max bytes')
COMPONENTS = {
    'real': ['replicat.utils.adapters.gclmulchunker.__call__ (piece buffering, one-piece lookahead)', 'src/adapters.cpp next_cut/key compiled from the working tree'],
    'stub': ['pybind11 binding layer (hand-written C-API glue)', 'adjacent memory (arena copy with chosen tail)'],
    'reference': ['sim/ref_chunker.py'],
}
ASSUMPTIONS = ['the glue replaces the pybind11 argument conversion; 20k random next_cut calls agree with the pre-built extension (selftest)']
PROBES = ['unaligned_max', 'min_eq_max', 'max_lt_8', 'empty_pieces', 'one_byte_pieces', 'piece_eq_max', 'tail_rule_half', 'stream_gt_2max', 'earlier_call_other_key', 'huge_piece_over_64MiB', 'pieces_are_views_into_one_recycled_buffer']
TIERS = {'quick': {'budget_s': 45, 'batch': 50}, 'thorough': {'budget_s': 600, 'batch': 100}}
KNOWN_UNALIGNED_FRACTION = 0.2     # unaligned maxima (once a known finding, fixed since) stay well represented


def gen_params(rng):
    k = rng.random()
    if k < KNOWN_UNALIGNED_FRACTION:
        mx = rng.choice([5, 6, 7, 9, 10, 11, 13, 30, 61, 101])
        mn = rng.randrange(1, (mx // 4) * 4 + 1)
    elif k < 0.2:
        mx = rng.choice([4, 8, 12, 16, 64, 100])
        mn = mx
    elif k < 0.3:
        mx = 4
        mn = rng.randrange(1, 5)
    else:
        mx = rng.choice([8, 12, 16, 20, 32, 64, 128, 256, 1000])
        mn = rng.choice([1, 2, 3, 4, 5, 8, max(1, mx // 16), max(1, mx // 4), mx - 3, mx])
        mn = max(1, min(mn, mx))
    if ((mn + 3) & -4) > mx:
        mn = max(1, (mx // 4) * 4)
    return mn, mx


def gen_stream(rng, mx):
    n = rng.choice([0, 1, 3, 4, mx - 1, mx, mx + 1, 2 * mx - 1, 2 * mx, 2 * mx + 1, 3 * mx, 5 * mx + 2, rng.randrange(0, 12 * mx + 1)])
    n = max(0, min(n, 4096))
    k = rng.random()
    if k < 0.55:
        return rng.randbytes(n)
    if k < 0.7:
        return bytes(n)
    if k < 0.85:
        blk = rng.randbytes(rng.choice([1, 2, 4, 8, 12]))
        return (blk * (n // len(blk) + 1))[:n]
    return bytes(rng.choice([0, 1, 255]) for _ in range(n))


def gen_segmentation(rng, n, mx):
    k = rng.random()
    if k < 0.15 or n == 0:
        cuts = [n]
    elif k < 0.25:
        cuts = [1] * n
    elif k < 0.4:
        cuts = []
        while sum(cuts) < n:
            cuts.append(rng.choice([mx, mx, mx + 1, mx - 1, mx + 2, mx + 3, 2 * mx, mx - 3]))
    else:
        cuts = []
        while sum(cuts) < n:
            cuts.append(rng.choice([0, 1, 2, 3, 4, 5, 7, mx // 2, mx, mx + 1, 2 * mx, 3 * mx + 1, rng.randrange(1, 4 * mx + 2)]))
    out, pos = [], 0
    for c in cuts:
        c = max(0, min(c, n - pos))
        out.append(c)
        pos += c
    if rng.random() < 0.3:
        out.insert(rng.randrange(len(out) + 1), 0)
    if rng.random() < 0.15:
        out.append(0)
    return out


def gen_case(seed, tier):
    rng = substream(seed, 'c10')
    if substream(seed, 'c10-huge').random() < 1 / 3000:
        # one stream of tens of megabytes with shipped-size parameters, handed over in pieces of very different sizes
        # (a single piece of > 64 MiB included); judged without the reference chunker, which is far too slow for it
        return {'seed': seed, 'kind': 'huge', 'size': (64 << 20) + rng.randrange(1 << 20, 12 << 20), 'min': 128_000,
                'max': rng.choice([5_120_000, 5_120_001, 1_000_003]), 'key': base64.b64encode(rng.randbytes(16)).decode()}
    mn, mx = gen_params(rng)
    key = rng.randbytes(16) if rng.random() < 0.9 else (b'\x01' + bytes(7) + rng.randbytes(8))
    if int.from_bytes(key[:8], 'little') == 0:
        key = b'\x01' + key[1:]
    data = gen_stream(rng, mx)
    segs = [gen_segmentation(rng, len(data), mx) for _ in range(rng.randrange(4, 9))]
    return {'seed': seed, 'min': mn, 'max': mx, 'key': base64.b64encode(key).decode(), 'data': base64.b64encode(data).decode(),
            'segs': segs, 'tail_seed': rng.randrange(1 << 30)}


class _Tail:
    def __init__(self, mode, seed):
        self.mode = mode
        self.rng = substream(seed, 'tail')

    def randbytes(self, n):
        if self.mode == 'zeros':
            return bytes(n)
        if self.mode == 'ones':
            return b'\xff' * n
        return self.rng.randbytes(n)


class _Env:
    def __init__(self, tail):
        self.memory = tail


def cut(adapter, data, seg, key, tail, other=None, recycle=False):
    install.install_once()
    saved = install.CTX.env
    install.CTX.env = _Env(tail)
    install.CTX.chunker_calls = 0
    install.CTX.chunker_call_limit = 4 * (len(data) + len(seg)) + 64
    try:
        def pieces():
            pos = 0
            scratch = bytearray(max(seg) if seg else 0)
            for c in seg:
                if recycle:
                    # the ordinary readinto() loop: one scratch buffer, every piece a view into it, overwritten by the next read
                    scratch[:c] = data[pos:pos + c]
                    yield memoryview(scratch)[:c]
                else:
                    yield bytearray(data[pos:pos + c]) if c % 2 else data[pos:pos + c]
                pos += c
                if other is not None:
                    next(other, None)     # unrelated calls on another chunker instance in between
        out = []
        for c in adapter(pieces(), params=key):
            out.append(bytes(c))
            if len(out) > len(data) + 4:
                raise install.ChunkerNoProgress(f'{len(out)} chunks from {len(data)} bytes')
        return out
    finally:
        install.CTX.env = saved
        install.CTX.chunker_call_limit = None


def run_huge(case):
    import hashlib
    import random
    import replicat.utils.adapters as A
    mn, mx, key = case['min'], case['max'], base64.b64decode(case['key'])
    data = random.Random(case['seed']).randbytes(case['size'])
    n = len(data)
    view = memoryview(data)
    viol, probes = [], {'huge_piece_over_64MiB': 1}
    sig = {'unaligned_max': mx % 4 != 0, 'huge': True}
    segs = {'one piece': [n], '16 MiB pieces': [16 << 20] * (n // (16 << 20)) + [n % (16 << 20)],
            'five 4 MB pieces, then the rest as one piece': [4_000_000] * 5 + [n - 20_000_000],
            'a big piece, then 1000 bytes': [n - 1000, 1000]}
    lengths = {}
    for label, seg in segs.items():
        adapter = A.gclmulchunker(min_length=mn, max_length=mx)

        def pieces(seg=seg):
            pos = 0
            for c in seg:
                yield bytes(view[pos:pos + c])
                pos += c
        h = hashlib.blake2b(digest_size=16)
        lens = []
        for c in adapter(pieces(), params=key):
            h.update(c)
            lens.append(len(c))
            if len(lens) > n // max(1, mn // 4) + 10:
                break
        if sum(lens) != n or h.digest() != hashlib.blake2b(data, digest_size=16).digest():
            viol.append({'cls': 'not-lossless', 'sig': sig, 'msg': f'{n} bytes as {label}: concatenation of {len(lens)} chunks ({sum(lens)} bytes) != input'})
            break
        if 0 in lens:
            viol.append({'cls': 'empty-chunk', 'sig': sig, 'msg': f'{n} bytes as {label}: empty chunk'})
            break
        pos = 0
        for ln in lens:
            if n - pos > 2 * mx and not (mn <= ln <= mx and ln % 4 == 0):
                viol.append({'cls': 'out-of-bounds-chunk', 'sig': sig, 'msg': f'min={mn} max={mx} len={n} as {label}: chunk at {pos} has length {ln}'})
                break
            pos += ln
        if viol:
            break
        lengths[label] = lens
    if not viol:
        def outside(lens):
            out, pos = [], 0
            for ln in lens:
                if n - pos > 2 * mx:
                    out.append((pos, ln))
                pos += ln
            return out
        ref = outside(lengths['16 MiB pieces'])
        for label, lens in lengths.items():
            if outside(lens) != ref:
                a = next((x, y) for x, y in zip(outside(lens) + [None], ref + [None]) if x != y)
                viol.append({'cls': 'depends-on-segmentation', 'sig': sig,
                             'msg': f'min={mn} max={mx} len={n}: outside the tail zone the chunks of "{label}" differ from those of 16 MiB pieces: (offset, length) {a[0]} vs {a[1]}'})
                break
    return {'violations': viol, 'digest': hashlib.blake2b(repr((case['seed'], lengths.get('one piece', [])[:50])).encode(), digest_size=8).hexdigest(),
            'digests': [f'huge-{case["seed"]}'], 'nontrivial': True, 'probes': probes, 'evaluations': len(lengths),
            'sample': {'kind': 'huge', 'min': mn, 'max': mx, 'len': n, 'chunks': len(lengths.get('one piece', []))}}


def run_case(case):
    if case.get('kind') == 'huge':
        return run_huge(case)
    import hashlib
    import replicat.utils.adapters as A
    mn, mx = case['min'], case['max']
    key = base64.b64decode(case['key'])
    data = base64.b64decode(case['data'])
    viol, probes = [], {}
    sig = {'unaligned_max': mx % 4 != 0}
    if mx % 4:
        probes['unaligned_max'] = 1
    if mn == mx:
        probes['min_eq_max'] = 1
    if mx < 8:
        probes['max_lt_8'] = 1
    if len(data) > 2 * mx:
        probes['stream_gt_2max'] = 1
    adapter = A.gclmulchunker(min_length=mn, max_length=mx)
    ref = ref_chunker.RefChunker(mn, mx, key)
    ref_chunks = ref.chunks_outside_tail(data)
    digests = []
    noise_adapter = A.gclmulchunker(min_length=max(1, mn // 2), max_length=mx)

    def noise():
        r = substream(case['tail_seed'], 'noise')
        while True:
            blob = r.randbytes(3 * mx + 5)
            for _ in noise_adapter(iter([blob, blob[:7]]), params=blob[:16] if blob[0] else b'\x01' + blob[1:16]):
                yield

    def same_instance_noise():
        # a second stream being cut by the SAME adapter object at the same time
        r = substream(case['tail_seed'], 'noise-same')
        while True:
            blob = r.randbytes(5 * mx + 7)
            for _ in adapter(iter([blob[:mx + 1], blob[mx + 1:], b'', blob[:3]]), params=key):
                yield

    for seg in case['segs']:
        if 0 in seg:
            probes['empty_pieces'] = 1
        if seg and all(c == 1 for c in seg):
            probes['one_byte_pieces'] = 1
        if mx in seg:
            probes['piece_eq_max'] = 1
        runs = []
        try:
            for mode, other in (('zeros', None), ('ones', noise()), ('seeded', None), ('zeros', noise()), ('zeros', same_instance_noise())):
                runs.append(cut(adapter, data, seg, key, _Tail(mode, case['tail_seed']), other))
            # earlier calls on the same adapter object under ANOTHER key: as an immutable value, and through a key
            # buffer that the caller afterwards fills with this run's key (same object, changed in place)
            okey = bytes(b ^ 0x5A for b in key)
            if int.from_bytes(okey[:8], 'little') == 0:
                okey = b'\x01' + okey[1:]
            blob = substream(case['tail_seed'], 'other-key').randbytes(3 * mx + 5)
            for _ in adapter(iter([blob, blob[:5]]), params=okey):
                pass
            runs.append(cut(adapter, data, seg, key, _Tail('zeros', case['tail_seed'])))
            kbuf = bytearray(okey)
            for _ in adapter(iter([blob, blob[:5]]), params=kbuf):
                pass
            kbuf[:] = key
            runs.append(cut(adapter, data, seg, kbuf, _Tail('zeros', case['tail_seed'])))
            probes['earlier_call_other_key'] = 1
            runs.append(cut(adapter, data, seg, key, _Tail('zeros', case['tail_seed']), recycle=True))
            probes['pieces_are_views_into_one_recycled_buffer'] = 1
        except install.ChunkerNoProgress as e:
            viol.append({'cls': 'no-progress', 'sig': sig, 'msg': f'min={mn} max={mx} len={len(data)} seg={seg[:12]}: chunker does not terminate ({e})'})
            break
        chunks = runs[0]
        digests.append(hashlib.blake2b(repr((mn, mx, case['key'], case['data'][:64], seg)).encode(), digest_size=8).hexdigest())
        if b''.join(chunks) != data:
            viol.append({'cls': 'not-lossless', 'sig': sig, 'msg': f'min={mn} max={mx} seg={seg[:12]}: concatenation of {len(chunks)} chunks '
                         f'({sum(map(len, chunks))} bytes) != input ({len(data)} bytes)'})
            break
        if any(len(c) == 0 for c in chunks):
            viol.append({'cls': 'empty-chunk', 'sig': sig, 'msg': f'min={mn} max={mx} seg={seg[:12]}: empty chunk produced'})
            break
        if any(r != chunks for r in runs[1:]):
            i = next(i for i, r in enumerate(runs) if r != chunks)
            viol.append({'cls': 'depends-on-adjacent-memory-or-earlier-calls', 'sig': sig,
                         'msg': f'min={mn} max={mx} len={len(data)} seg={seg[:12]}: chunk sizes {list(map(len, chunks))[:10]} with zero bytes after the buffer, '
                                f'{list(map(len, runs[i]))[:10]} with {["zeros", "0xFF", "seeded", "zeros+interleaved", "zeros+a second stream on the same adapter object", "zeros, after a call with another key on the same adapter object", "zeros, after a call with another key held in the same (mutable) key buffer", "zeros, pieces handed over as views into one recycled buffer"][i]}'})
            break
        pos = 0
        bad = None
        for c in chunks:
            if len(data) - pos > 2 * mx:
                if not (mn <= len(c) <= mx and len(c) % 4 == 0):
                    bad = (pos, len(c))
                    break
            pos += len(c)
        if bad:
            viol.append({'cls': 'out-of-bounds-chunk', 'sig': sig, 'msg': f'min={mn} max={mx} len={len(data)} seg={seg[:12]}: chunk at {bad[0]} has length {bad[1]}'})
            break
        got = []
        pos = 0
        for c in chunks:
            if len(data) - pos > 2 * mx:
                got.append((pos, len(c)))
            pos += len(c)
        if got != ref_chunks:
            viol.append({'cls': 'differs-from-specification', 'sig': sig,
                         'msg': f'min={mn} max={mx} len={len(data)} seg={seg[:12]}: chunks outside the tail zone {got[:8]} != reference {ref_chunks[:8]}'})
            break
        # tail rule probe
        if len(chunks) >= 2 and len(chunks[-1]) + len(chunks[-2]) < mx + mn and len(chunks[-2]) == (len(chunks[-1]) + len(chunks[-2])) // 2:
            probes['tail_rule_half'] = 1
    return {'violations': viol, 'digest': hashlib.blake2b(''.join(digests).encode(), digest_size=16).hexdigest(), 'digests': digests,
            'nontrivial': len(data) > 2 * mx, 'probes': probes, 'evaluations': len(case['segs']) * 5, 'sim_s': 0.0, 'steps': 0,
            'sample': {'min': mn, 'max': mx, 'len': len(data), 'segmentations': [s[:10] for s in case['segs'][:3]], 'chunks_outside_tail': len(ref_chunks)}}


def shrink(case):
    if case.get('kind') == 'huge':
        return
    data = base64.b64decode(case['data'])
    if len(case['segs']) > 1:
        for i in range(len(case['segs'])):
            c = copy.deepcopy(case)
            c['segs'] = [case['segs'][i]]
            yield c
    for cutlen in (len(data) // 2, len(data) - 4, len(data) - 1):
        if 0 < cutlen < len(data):
            c = copy.deepcopy(case)
            c['data'] = base64.b64encode(data[:cutlen]).decode()
            c['segs'] = [_clip(s, cutlen) for s in case['segs']]
            yield c


def _clip(seg, n):
    out, pos = [], 0
    for c in seg:
        c = min(c, n - pos)
        out.append(c)
        pos += c
    if pos < n:
        out.append(n - pos)
    return out

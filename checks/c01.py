"""C01  Backup round trip is the identity on file trees."""
import base64
import copy
import os
from pathlib import Path

from sim import gen, harness, install, world
from sim.core import substream

PROP = 'C01'
TECHNIQUE = 'deterministic simulation: seeded search over configurations, inputs and thread/coroutine schedules of the real snapshot+restore; exact tree oracle'
LEVEL = 'exploration'
RULE = ('one case = init (seeded valid settings: encrypted or not, cipher, hash, chunk bounds incl. min=max and unaligned '
        'max) + snapshot of a seeded argument list (files, directories, repeats, overlaps, symlinked files/dirs) over a '
        'seeded tree (sizes around alignment/min/max/2*max/read piece, duplicate and zero contents, non-ASCII and non-UTF-8 '
        'names) + restore into an empty or pre-populated target, at concurrency 1..6 on the plain or coroutine SimStore '
        'under a seeded schedule; oracle = exact file set, bytes and mtime. distinct_nontrivial = distinct event-log '
        'digests among cases with >= 1 file')
COMPONENTS = {
    'real': ['replicat.repository.Repository (init, unlock, snapshot, restore)', 'replicat.utils.fs', 'replicat.utils.adapters',
             'src/adapters.cpp (rebuilt via shim)', 'asyncio.BaseEventLoop', 'source and target trees on a real tmpfs'],
    'stub': ['OS thread scheduling', 'clocks', 'os.urandom', 'object store (SimStore)', 'st_atime/st_ctime (derived from mtime)'],
}
ASSUMPTIONS = ['files do not change while the snapshot runs', 'path arguments are resolved (README); entries below a directory keep their traversal path',
               'no symlink cycles', 'scrypt work factors reduced (n<=8)']
PROBES = ['preexisting_same_size_and_mtime', 'large_files_and_chunks', 'empty_only_tree', 'dup_args', 'same_path_two_spellings', 'symlink_file', 'symlink_dir', 'preexisting_longer', 'preexisting_shorter', 'piece_knob', 'unaligned_max', 'min_eq_max']
TIERS = {'quick': {'budget_s': 75, 'batch': 20}, 'thorough': {'budget_s': 900, 'batch': 40}}


def gen_case(seed, tier):
    rng = substream(seed, 'c01-workload')
    settings = gen.gen_settings(rng)
    ch = settings['chunking']
    mn, mx = ch['min_length'], ch['max_length']
    piece = rng.choice([None, None, 1, 3, 4, 5, 16, 64, 100, 1000])
    tree = gen.tree_spec(rng, mn=mn, mx=mx, piece=piece, max_size=6000)
    brng = substream(seed, 'c01-big')
    big = brng.random() < 0.06
    if big:
        # files and chunks of many kilobytes (whatever is special about "large" parts: block sizes, zero runs, sparse handling)
        mn, mx = 4096, brng.choice([8192, 65536])
        settings['chunking'] = {'min_length': mn, 'max_length': mx}
        piece = None
        tree = gen.tree_spec(brng, mn=mn, mx=mx, nfiles=brng.choice([1, 2, 3]), max_size=150_000, min_files=1)
        for e in tree:
            n = len(gen.spec_data(e))
            k = brng.random()
            if n and k < 0.35:
                e['d'] = base64.b64encode(bytes(n)).decode()
            elif n > 10 and k < 0.6:
                a = brng.randrange(0, n // 2)
                data = bytearray(gen.spec_data(e))
                data[a:a + n // 2] = bytes(n // 2)
                e['d'] = base64.b64encode(bytes(data)).decode()
    rels = [gen.spec_rel(e) for e in tree]
    dirs = sorted({os.path.dirname(r) for r in rels if os.path.dirname(r)})
    links = []
    if rels and rng.random() < 0.35:
        used = set()
        for _ in range(rng.randrange(1, 3)):
            if rng.random() < 0.6 or not dirs:
                tgt = rng.choice(rels)
            else:
                tgt = rng.choice(dirs)
            links.append({'name': gen.gen_name(rng, used, False), 'target': base64.b64encode(os.fsencode(tgt)).decode(),
                          'absolute': rng.random() < 0.5})
    # arguments: relative to src/ ; 'data' is the tree root, 'links' holds the symlinks
    cands = ['data'] + ['data/' + r for r in rels] + ['data/' + d for d in dirs]
    if links:
        cands += ['links'] + ['links/' + l['name'] for l in links]
    k = rng.random()
    if k < 0.35:
        args = ['data']
    elif k < 0.5:
        args = ['data', 'links'] if links else ['data', 'data']
    else:
        args = [rng.choice(cands) for _ in range(rng.randrange(1, 5))]
        if rng.random() < 0.3:
            args.append(rng.choice(args))        # explicit repeat
    srng = substream(seed, 'c01-spelling')
    if srng.random() < 0.3:
        # the same arguments spelled differently (and possibly twice under two spellings)
        respelt = []
        for a in args:
            k2 = srng.random()
            if k2 < 0.25:
                respelt.append('./' + a)
            elif k2 < 0.5:
                respelt.append('data/../' + a)
            elif k2 < 0.65 and '/' in a:
                head, tail = a.rsplit('/', 1)
                respelt.append(head + '/./' + tail)
            else:
                respelt.append(a)
        if srng.random() < 0.5:
            respelt.append('data/../' + srng.choice(args))
        args = respelt
    args = [base64.b64encode(os.fsencode(a)).decode() for a in args]
    pre = None
    if rng.random() < 0.4 or big:
        pre = {'mode': [rng.choice(['longer', 'shorter', 'shorter-by-much', 'different', 'different-same-mtime', 'nonempty', 'same']) for _ in range(4)],
               'unrelated': rng.randrange(0, 3), 'seed': rng.randrange(1 << 30)}
    return {
        'seed': seed, 'sched_seed': seed, 'settings': settings, 'tree': tree, 'links': links, 'args': args, 'big': big,
        'N': rng.choice([1, 1, 2, 3, 4, 6]), 'flavour': rng.choice(['sync', 'async']),
        'lat_kind': rng.choice(['zero', 'uniform', 'heavy']), 'lat': rng.choice([0.001, 0.02]),
        'opts': world.SchedOpts.swarm(rng).as_dict(), 'piece': piece, 'pre': pre,
        'list_order': rng.choice(['sorted', 'shuffled']),
    }


def _walk(d):
    with os.scandir(d) as it:
        entries = list(it)
    for e in entries:
        if e.is_dir():
            yield from _walk(e.path)
        elif e.is_file():
            yield e.path


def expected_files(args):
    """Independent reading of 'which paths does this argument list reach'."""
    out = {}
    for a in args:
        r = os.path.realpath(a)
        if os.path.isdir(r):
            found = list(_walk(r))
        elif os.path.isfile(r):
            found = [r]
        else:
            found = []
        for p in found:
            with open(p, 'rb') as f:
                out[p] = (f.read(), os.stat(p).st_mtime_ns)
    return out


def run_case(case):
    viol = []
    probes = {}
    W = harness.World(case['sched_seed'], 'c01', flavour=case['flavour'], lat_kind=case['lat_kind'], lat=case['lat'],
                      list_order=case['list_order'])
    try:
        if case.get('big'):
            W.env.block_size = 128_000      # (100 kB in 1-byte transfer blocks would only burn scheduler steps)
            probes['large_files_and_chunks'] = 1
        src = W.dir / 'src'
        gen.materialize(src / 'data', case['tree'])
        (src / 'data').mkdir(parents=True, exist_ok=True)
        (src / 'links').mkdir(parents=True, exist_ok=True)
        for l in case['links']:
            tgt = os.fsdecode(base64.b64decode(l['target']))
            dest = src / 'links' / l['name']
            if l['absolute']:
                os.symlink(src / 'data' / tgt, dest)
            else:
                os.symlink(os.path.join('..', 'data', tgt), dest)
            probes['symlink_dir' if (src / 'data' / tgt).is_dir() else 'symlink_file'] = 1
        args = [src / os.fsdecode(base64.b64decode(a)) for a in case['args']]
        exp = expected_files(args)
        if len(set(map(str, args))) < len(args):
            probes['dup_args'] = 1
        if len({os.path.realpath(a) for a in args}) < len(set(map(str, args))):
            probes['same_path_two_spellings'] = 1
        if exp and all(len(v[0]) == 0 for v in exp.values()):
            probes['empty_only_tree'] = 1
        ch = case['settings']['chunking']
        if ch['max_length'] % 4:
            probes['unaligned_max'] = 1
        if ch['min_length'] == ch['max_length']:
            probes['min_eq_max'] = 1

        N = case['N']
        enc = case['settings'].get('encryption') is not None
        client = world.Client('u', password=b'pass word' if enc else None, concurrent=N)
        seq = world.SchedOpts.sequential()
        opts = world.SchedOpts.from_dict(case['opts'])
        r0 = W.init(client, case['settings'], seq, profile=W.profile(lat_kind='zero'))
        if not r0.ok:
            raise RuntimeError(f'init failed in harness: {r0.outcome()} {r0.exc!r}')
        if case.get('piece'):
            probes['piece_knob'] = 1
            install.set_snapshot_knobs(case['piece'], None)
        try:
            snap = W.snapshot(client, args, opts)
        finally:
            install.set_snapshot_knobs(None, None)
        if not snap.ok:
            viol.append({'cls': 'snapshot-failed', 'sig': {'outcome': snap.outcome()},
                         'msg': f'snapshot of a valid tree did not succeed: {snap.outcome()} {snap.exc or snap.hang!r}'})
            return _result(W, viol, probes, case, exp)
        rec = [f['path'] for f in snap.value['data']['files']]
        if sorted(rec) != sorted(exp):
            dup = sorted({p for p in rec if rec.count(p) > 1})
            viol.append({'cls': 'recorded-set', 'sig': {'dups': bool(dup), 'missing_all_empty': bool(exp) and not rec and bool(probes.get('empty_only_tree'))},
                         'msg': f'snapshot records {len(rec)} paths, expected {len(exp)}: missing={sorted(set(exp) - set(rec))[:5]} '
                                f'extra={sorted(set(rec) - set(exp))[:5]} duplicated={dup[:5]}'})
        # recorded ranges must tile each file
        for f in snap.value['data']['files']:
            size = sum(c['range'][1] - c['range'][0] for c in f['chunks'])
            e = exp.get(f['path'])
            if e is not None and size != len(e[0]):
                viol.append({'cls': 'recorded-size', 'sig': {'ratio': round(size / len(e[0]), 2) if e[0] else None},
                             'msg': f'{f["path"]!r}: ranges sum to {size}, file has {len(e[0])} bytes'})
                break

        # ---- restore target
        target = W.dir / 'out'
        target.mkdir()
        pre_files = {}
        if case.get('pre'):
            prng = substream(case['pre']['seed'], 'pre')
            modes = case['pre']['mode']
            for i, (p, (data, rec_mt)) in enumerate(sorted(exp.items())):
                if i >= len(modes):
                    break
                m = modes[i]
                stamp = None
                if m == 'longer':
                    old = prng.randbytes(len(data) + prng.randrange(1, 40))
                    probes['preexisting_longer'] = 1
                elif m == 'shorter':
                    old = prng.randbytes(max(0, len(data) - prng.randrange(1, 10)))
                    probes['preexisting_shorter'] = 1
                elif m == 'shorter-by-much':
                    old = prng.randbytes(prng.randrange(1, len(data))) if len(data) > 1 else b''
                    probes['preexisting_shorter'] = 1
                elif m == 'different-same-mtime':
                    # same length and same modification time as recorded, other bytes (a copy that was damaged, or
                    # a tool that puts time-stamps back)
                    old = bytes(b ^ 0xFF for b in data)
                    stamp = rec_mt
                    probes['preexisting_same_size_and_mtime'] = 1
                elif m == 'different':
                    old = prng.randbytes(len(data))
                elif m == 'nonempty':
                    old = prng.randbytes(prng.randrange(1, 20))
                    if not data:
                        probes['preexisting_longer'] = 1
                else:
                    old = data
                q = harness.restored_path(target, p)
                q.parent.mkdir(parents=True, exist_ok=True)
                q.write_bytes(old)
                if stamp is not None:
                    os.utime(q, ns=(stamp, stamp))
            for j in range(case['pre']['unrelated']):
                q = target / f'unrelated-{j}' / 'keep.bin'
                q.parent.mkdir(parents=True, exist_ok=True)
                q.write_bytes(prng.randbytes(17 + j))
                os.utime(q, ns=(10**18, 10**18 + j))
                pre_files[str(q.relative_to(target))] = (q.read_bytes(), q.stat().st_mtime_ns)

        rest = W.restore(client, target, opts)
        if not rest.ok:
            viol.append({'cls': 'restore-failed', 'sig': {'outcome': rest.outcome(), 'exc': type(rest.exc).__name__ if rest.exc else None},
                         'msg': f'restore did not succeed: {rest.outcome()} {rest.exc or rest.hang!r}'})
            return _result(W, viol, probes, case, exp)
        got = gen.read_tree(target)
        want = dict(pre_files)
        for p, (data, mt) in exp.items():
            want[str(harness.restored_path(target, p).relative_to(target))] = (data, mt)
        if got != want:
            cls, sig, msg = _classify(got, want, pre_files)
            viol.append({'cls': cls, 'sig': sig, 'msg': msg})
        lst = rest.value['files']
        if sorted(lst) != sorted(exp):
            viol.append({'cls': 'restore-list', 'sig': {},
                         'msg': f'restore().files = {sorted(lst)[:6]} (n={len(lst)}), expected {sorted(exp)[:6]} (n={len(exp)})'})
        return _result(W, viol, probes, case, exp)
    finally:
        W.close()


def _classify(got, want, pre_files):
    missing = sorted(set(want) - set(got))
    extra = sorted(set(got) - set(want))
    content = [k for k in want if k in got and got[k][0] != want[k][0]]
    mtime = [k for k in want if k in got and got[k][0] == want[k][0] and got[k][1] != want[k][1]]
    if extra:
        return 'extra-files', {}, f'restore created files that were not in the snapshot: {extra[:5]}'
    if missing:
        allempty = all(len(want[k][0]) == 0 for k in missing)
        return 'missing-files', {'all_empty': allempty}, f'files missing after restore: {missing[:5]} (all empty: {allempty})'
    if content:
        k = content[0]
        g, w = got[k][0], want[k][0]
        kind = 'other'
        if len(g) > len(w) and g[:len(w)] == w:
            kind = 'stale-tail'
        elif len(g) == 2 * len(w) or (len(g) > len(w) and len(w) and len(g) % len(w) == 0):
            kind = 'multiplied'
        if k in pre_files:
            kind = 'unrelated-modified'
        return 'content-differs', {'kind': kind}, (f'{k!r}: restored {len(g)} bytes, expected {len(w)} bytes '
                                                   f'({kind}); first difference at {_first_diff(g, w)}')
    k = mtime[0]
    return 'mtime-differs', {}, f'{k!r}: mtime_ns {got[k][1]} != recorded {want[k][1]}'


def _first_diff(a, b):
    for i, (x, y) in enumerate(zip(a, b)):
        if x != y:
            return i
    return min(len(a), len(b))


def _result(W, viol, probes, case, exp):
    return {'violations': viol, 'digest': W.digest(), 'nontrivial': bool(exp), 'fired': dict(W.fired), 'probes': probes,
            'sim_s': W.sim_s, 'steps': W.sim_steps,
            'sample': {'settings': case['settings'], 'files': [(e['p'], len(gen.spec_data(e))) for e in case['tree']],
                       'args': [os.fsdecode(base64.b64decode(a)) for a in case['args']], 'links': len(case['links']),
                       'N': case['N'], 'flavour': case['flavour'], 'pre': case['pre'], 'piece': case['piece']}}


def shrink(case):
    for i in range(len(case['tree'])):
        c = copy.deepcopy(case)
        rel = 'data/' + gen.spec_rel(c['tree'][i])
        del c['tree'][i]
        c['args'] = [a for a in c['args'] if os.fsdecode(base64.b64decode(a)) != rel]
        c['links'] = [l for l in c['links'] if os.fsdecode(base64.b64decode(l['target'])) != gen.spec_rel(case['tree'][i])]
        if c['args']:
            yield c
    for i, e in enumerate(case['tree']):
        d = gen.spec_data(e)
        if len(d) > 8:
            c = copy.deepcopy(case)
            c['tree'][i]['d'] = base64.b64encode(d[:len(d) // 2]).decode()
            yield c
    if len(case['args']) > 1:
        for i in range(len(case['args'])):
            c = copy.deepcopy(case)
            del c['args'][i]
            yield c
    for k, v in (('pre', None), ('piece', None), ('lat_kind', 'zero'), ('N', 1), ('flavour', 'sync')):
        if case.get(k) != v:
            c = copy.deepcopy(case)
            c[k] = v
            yield c
    if case['links']:
        c = copy.deepcopy(case)
        c['links'] = []
        c['args'] = [a for a in c['args'] if not os.fsdecode(base64.b64decode(a)).startswith('links')]
        if c['args']:
            yield c
    if case['settings'].get('encryption') is not None:
        c = copy.deepcopy(case)
        c['settings']['encryption'] = None
        yield c

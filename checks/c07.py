"""C07  Identical data is stored once."""
from sim import history

PROP = 'C07'
TECHNIQUE = 'deterministic simulation: seeded overlap-rich histories; chunk objects == referenced chunks and journal-level upload accounting'
LEVEL = 'exploration'
RULE = ('[users are processes per command or long-lived programs that keep one Repository object across commands] one case = a crash-free seeded history of snapshot / delete / clean by users with the same, shared or independent keys '
        'over file sets with engineered overlap (identical files, shared aligned prefixes / suffixes, repeated blocks) at '
        'concurrency 1..4; after every command the independent reader computes, per key family, the set of chunk objects and '
        'the set of distinct chunks referenced by remaining snapshots (must be equal; families must not share names), and the '
        'operation journal of each snapshot must show no upload of a chunk object that already existed, and no upload at all when the '
        'file set equals that of a live snapshot of the same family (directory enumeration order is re-drawn for every walk). '
        'distinct_nontrivial = distinct event-log digests among histories with >= 1 snapshot')
COMPONENTS = {
    'real': ['replicat.repository.Repository', 'replicat.utils.adapters (chunker, MAC names)', 'src/adapters.cpp (shim build)'],
    'stub': ['OS thread scheduling', 'clocks', 'os.urandom', 'object store (SimStore)'],
    'reference': ['sim/ref_format.py', 'sim/history.py model'],
}
ASSUMPTIONS = ['crash-free histories', 'directory enumeration order changes between snapshots (seeded)', 'duplicate transfers of one chunk by two concurrent workers inside one snapshot are not counted (objects, not transfers)']
PROBES = ['delete', 'clean']
TIERS = {'quick': {'budget_s': 70, 'batch': 10}, 'thorough': {'budget_s': 900, 'batch': 20}}
ORACLES = ('store', 'exact', 'dedup')


def gen_case(seed, tier):
    case = history.gen_history(seed, 'c07', max_users=4 if tier == 'thorough' else 3, nops=(3, 24) if tier == 'thorough' else (3, 10), destructive=True, overlap=False, reads=False, many=0.08, services=True)
    return case


def run_case(case):
    return history.History(case, 'c07', ORACLES).run()


def shrink(case):
    return history.shrink_history(case)

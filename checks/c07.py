"""C07  Identical data is stored once."""
from sim import history

PROP = 'C07'
TECHNIQUE = 'deterministic simulation: seeded overlap-rich histories; chunk objects == referenced chunks and journal-level upload accounting'
LEVEL = 'exploration'
RULE = ('[users are processes per command or long-lived programs that keep one Repository object across commands] one case = a crash-free seeded history of snapshot / delete / clean by users with the same, shared or independent keys '
        'over file sets with engineered overlap (identical files, shared aligned prefixes / suffixes, repeated blocks) at '
        'concurrency 1..4; after every command the independent reader computes, per key family, the set of chunk objects and '
        'the set of distinct chunks referenced by remaining snapshots (must be equal; families must not share names), and the '
        'operation journal of each snapshot must show no upload of a chunk object that already existed, and no upload at all when the '
        'file set equals that of a live snapshot of the same family (directory enumeration order is re-drawn for every walk). '
        'distinct_nontrivial = distinct event-log digests among histories with >= 1 snapshot')
COMPONENTS = {
    'real': ['replicat.repository.Repository', 'replicat.utils.adapters (chunker, MAC names)', 'src/adapters.cpp (shim build)'],
    'stub': ['OS thread scheduling', 'clocks', 'os.urandom', 'object store (SimStore)'],
    'reference': ['sim/ref_format.py', 'sim/history.py model'],
}
ASSUMPTIONS = ['crash-free histories', 'directory enumeration order changes between snapshots (seeded)', 'duplicate transfers of one chunk by two concurrent workers inside one snapshot are not counted (objects, not transfers)']
PROBES = ['megabytes_two_concurrencies', 'delete', 'clean']
TIERS = {'quick': {'budget_s': 70, 'batch': 10}, 'thorough': {'budget_s': 900, 'batch': 20}}
ORACLES = ('store', 'exact', 'dedup')


def gen_case(seed, tier):
    case = history.gen_history(seed, 'c07', max_users=4 if tier == 'thorough' else 3, nops=(3, 24) if tier == 'thorough' else (3, 10), destructive=True, overlap=False, reads=False, many=0.08, services=True)
    from sim.core import substream
    brng = substream(seed, 'c07-big')
    if brng.random() < 0.012:
        # megabytes of unchanged data under shipped-size chunking, backed up twice by two holders of the key family who
        # work with different concurrency (whatever a command derives from its concurrency must not move chunk boundaries)
        enc = case['settings'].get('encryption') is not None
        case['settings']['chunking'] = {'min_length': 128_000, 'max_length': 5_120_000}
        case['contents'] = [f'rand:{seed}:{brng.randrange(5_000_000, 15_000_000)}', f'rand:{seed + 1}:{brng.randrange(1, 5000)}']
        u0 = dict(case['users'][0], N=brng.choice([1, 2, 3]))
        u1 = dict(u0, rel='shared' if enc else 'same', parent=0, N=brng.choice([4, 5, 8]), password=u0['password'] + 'x')
        case['users'] = [u0, u1]
        files = {'big.bin': 0, 'small.bin': 1}
        order = [0, 1] if brng.random() < 0.5 else [1, 0]
        case['ops'] = [{'op': 'snapshot', 'u': order[0], 'files': files, 'at': 1.0, 'mt': 1_500_000_000, 'note': None},
                       {'op': 'snapshot', 'u': order[1], 'files': dict(files), 'at': 2.0, 'mt': 1_500_000_000, 'note': None}]
        case['live'], case['shared_object'], case['backend'], case['lat_kind'] = [], False, None, 'zero'
        case['big'] = True
    return case


def run_case(case):
    H = history.History(case, 'c07', ORACLES)
    if case.get('big'):
        H.W.env.block_size = 128_000
        H.probe('megabytes_two_concurrencies')
    return H.run()


def shrink(case):
    return history.shrink_history(case)

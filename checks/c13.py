"""C13  All backends behave as the same simple object store."""
import base64
import copy
import io
import os

from sim import core, fakes, fsseam, gen, install, world
from sim.core import substream
from sim.install import CTX

PROP = 'C13'
TECHNIQUE = 'deterministic simulation: lock-step operation histories on three real adapters vs a dict model, with concurrent readers/writers under seeded schedules'
LEVEL = 'exploration'
RULE = ('one case = a seeded history (10..40 operations: upload, streamed upload, delete, exists, download, streamed download, prefix listing) '
        'over names built from path segments of printable ASCII and non-ASCII characters (prefix-free), applied in lock-step to the REAL Local '
        'adapter (scratch directory through the FS seam, seeded spelling of the repository path: absolute, relative, ".", "./x", "x/", '
        '"a/../x", via a symlink; seeded directory enumeration order), the real S3Compatible adapter on FakeS3 and the real B2 adapter on '
        'FakeB2 (server page sizes 1..5 or large; payloads around the stream chunk size 1..64); every return value is compared with a dict '
        'model and the adapters with each other; during overwrites of the local backend a concurrent simulated reader must see the old or '
        'the new bytes, never a mixture or absence, and two overlapping uploads of one name must leave one of the two payloads, whole. distinct_nontrivial = distinct event-log digests')
COMPONENTS = {
    'real': ['replicat.backends.local.Local', 'replicat.backends.s3c.S3Compatible', 'replicat.backends.b2.B2', 'replicat.utils.requires_auth', 'backoff', 'httpx client stack above the transport'],
    'stub': ['file-system syscalls (pass-through seam with seeded scandir order)', 'FakeS3 / FakeB2 services (written from the public API docs)', 'clocks', 'thread scheduling'],
    'reference': ['dict name -> bytes'],
}
ASSUMPTIONS = ['no name is a directory prefix of another; no ".", ".." or empty segments', 'the fakes encode my reading of the S3 / B2 documentation']
PROBES = ['list_multi_page_s3', 'list_multi_page_b2', 'download_missing', 'overwrite', 'delete_missing', 'spelling_relative', 'spelling_dot', 'spelling_symlink_dotdot',
          'concurrent_reader', 'concurrent_writer', 'name_nonascii', 'name_special', 'name_tmp_suffix', 'name_near_255_bytes', 'stream_short_reads']
TIERS = {'quick': {'budget_s': 60, 'batch': 10}, 'thorough': {'budget_s': 900, 'batch': 20}}

ALPH = ['abcdefghijklmnopqrstuvwxyz0123456789', 'AB-_.~', ' !$&\'()*+,;=:@', '%?#[]{}|^`"<>\\', 'äßñ日本한😀']


def gen_segment(rng, special_p):
    n = rng.randrange(1, 8)
    k = rng.random()
    if k < 1 - special_p:
        pools = ALPH[:2]
    else:
        pools = ALPH
    s = ''.join(rng.choice(rng.choice(pools)) for _ in range(n))
    if s in ('.', '..') or not s.strip():
        s = 'x' + s.strip('.') + 'y'
    if rng.random() < 0.03:
        s += '.tmp'
    if rng.random() < 0.04:
        # components near the 255-byte limit of common file systems (ASCII and multi-byte)
        fill = rng.choice(['q', 'ä', '日'])
        target = rng.choice([240, 241, 243, 250, 255])
        while len((s + fill).encode()) <= target:
            s += fill
    return s


def gen_names(rng, n, special_p):
    names = []
    for _ in range(200):
        if len(names) >= n:
            break
        depth = rng.choice([1, 1, 2, 2, 3])
        if names and rng.random() < 0.5:
            # share a directory / a string prefix with an existing name
            base = rng.choice(names).split('/')
            segs = base[:rng.randrange(0, len(base))] + [gen_segment(rng, special_p)]
            if rng.random() < 0.3:
                segs[-1] = base[min(len(segs) - 1, len(base) - 1)][:2] + segs[-1]
        else:
            segs = [gen_segment(rng, special_p) for _ in range(depth)]
        if names and rng.random() < 0.08:
            # a name that differs from an existing one only in letter case or Unicode normal form
            alike = gen._look_alike(rng, rng.choice(names))
            if alike:
                segs = alike.split('/')
        name = '/'.join(segs)
        if any(len(s.encode()) > 255 for s in segs):
            continue
        ok = name not in names
        for other in names:
            if other.startswith(name + '/') or name.startswith(other + '/'):
                ok = False
        if ok:
            names.append(name)
    return names


def gen_case(seed, tier):
    rng = substream(seed, 'c13')
    special_p = rng.choice([0.0, 0.0, 0.2, 0.6])
    names = gen_names(rng, rng.randrange(2, 10), special_p)
    chunk = rng.choice([1, 2, 5, 16, 64, 128000])
    ops = []
    for _ in range(rng.randrange(10, 40)):
        k = rng.random()
        name = rng.choice(names)
        size = rng.choice([0, 1, chunk - 1, chunk, chunk + 1, 2 * chunk, 2 * chunk + 1, 3 * chunk - 1, rng.randrange(0, 200)])
        size = max(0, min(size, 300))
        if chunk == 128000 and rng.random() < 0.15:
            size = rng.choice([127999, 128000, 128001, 256001])      # around the shipped stream chunk size
        if k < 0.25:
            ops.append({'op': 'upload', 'name': name, 'size': size, 'reader': rng.random() < 0.3, 'rival': rng.random() < 0.25})
        elif k < 0.4:
            ops.append({'op': 'upload_stream', 'name': name, 'size': size, 'chunk': chunk, 'reader': rng.random() < 0.3, 'rival': rng.random() < 0.25})
        elif k < 0.5:
            ops.append({'op': 'delete', 'name': name})
        elif k < 0.6:
            ops.append({'op': 'exists', 'name': name})
        elif k < 0.7:
            ops.append({'op': 'download', 'name': name})
        elif k < 0.8:
            ops.append({'op': 'download_stream', 'name': name, 'chunk': chunk})
        else:
            p = rng.random()
            if p < 0.3:
                prefix = ''
            elif p < 0.6:
                prefix = name[:rng.randrange(0, len(name) + 1)]
            elif p < 0.8:
                prefix = name.rsplit('/', 1)[0] + '/' if '/' in name else name
            else:
                prefix = rng.choice(['zz', name + 'x', 'data/', name.split('/')[0]])
            ops.append({'op': 'list', 'prefix': prefix})
    return {'seed': seed, 'sched_seed': seed, 'names': names, 'ops': ops,
            'spelling': rng.choice(['abs', 'abs', 'rel', 'dot', 'dotslash', 'trailing', 'dotdot', 'symlink', 'symlink-dotdot']),
            's3_page': rng.choice([1, 2, 3, 5, 1000]), 'b2_page': rng.choice([1, 2, 3, 5, 1000]), 'b2_by_id': rng.random() < 0.5,
            'b2_restricted': rng.random() < 0.5, 'lat': rng.choice([0.0, 0.01]),
            'opts': world.SchedOpts.swarm(rng).as_dict(), 'adapters': ['local', 's3', 'b2']}


class Ops:
    """Uniform (awaitable) access to a sync or async backend."""

    def __init__(self, backend):
        self.b = backend

    async def call(self, name, *a):
        import inspect
        f = getattr(self.b, name)
        if inspect.isasyncgenfunction(f):
            return [x async for x in f(*a)]
        r = f(*a)
        if inspect.isawaitable(r):
            r = await r
        if name == 'list_files' and not isinstance(r, list):
            r = list(r)
        return r


def run_case(case):
    install.install_once()
    viol, probes = [], {}
    env = install.Env(case['sched_seed'])
    d = world.scratch_dir('c13', case['sched_seed'])
    cwd = os.getcwd()
    services = {}
    res_holder = {}
    try:
        rng = substream(case['sched_seed'], 'c13-run')
        root = d / 'repo dir'
        root.mkdir()
        spelling = case['spelling']
        os.chdir(d)
        if spelling == 'abs':
            loc = str(root)
        elif spelling == 'rel':
            loc = 'repo dir'
            probes['spelling_relative'] = 1
        elif spelling == 'dot':
            os.chdir(root)
            loc = '.'
            probes['spelling_dot'] = 1
        elif spelling == 'dotslash':
            loc = './repo dir'
            probes['spelling_relative'] = 1
        elif spelling == 'trailing':
            loc = str(root) + '/'
        elif spelling == 'dotdot':
            (d / 'a').mkdir()
            loc = 'a/../repo dir'
            probes['spelling_relative'] = 1
        elif spelling == 'symlink-dotdot':
            # '..' after a symbolic link: the OS resolves it against the link's TARGET, a textual clean-up of the path would not
            os.rmdir(root)
            (d / 'elsewhere' / 'sub').mkdir(parents=True)
            root = d / 'elsewhere' / 'repo dir'
            root.mkdir()
            (d / 'repo dir').mkdir()      # what 'link/../repo dir' collapses to textually: another, unrelated directory
            os.symlink(d / 'elsewhere' / 'sub', d / 'link')
            loc = rng.choice([str(d / 'link' / '..' / 'repo dir'), 'link/../repo dir'])
            probes['spelling_symlink_dotdot'] = 1
        else:
            os.symlink(root, d / 'link')
            loc = str(d / 'link')
        fs = fsseam.FS(order_rng=substream(case['sched_seed'], 'scandir'))
        payload_rng = substream(case['sched_seed'], 'payload')

        async def main(res):
            backends = {}
            if 'local' in case['adapters']:
                backends['local'] = Ops(fsseam.make_local(loc, fs))
            if 's3' in case['adapters']:
                svc = fakes.FakeS3(bucket='bucket-1', key_id='AKIDEXAMPLE', secret='wJalrXUtnFEMI/K7MDENG+bPxRfiCYEXAMPLEKEY', region='us-east-1',
                                   host='s3.fake.test', page_size=case['s3_page'], latency=case['lat'], request_budget=60)
                services['s3'] = svc
                backends['s3'] = Ops(fakes.make_s3(svc))
            if 'b2' in case['adapters']:
                svc = fakes.FakeB2(bucket_name='bucket-b2', bucket_id='b2id0001', key_id='keyid', application_key='appkey',
                                   restricted=case['b2_restricted'], page_size=case['b2_page'], latency=case['lat'], request_budget=120)
                services['b2'] = svc
                backends['b2'] = Ops(fakes.make_b2(svc, by_id=case['b2_by_id']))
            model = {}
            res_holder['model'] = model
            res_holder['scratch'] = str(d)
            res_holder['known_names'] = set(case['names'])
            for i, op in enumerate(case['ops']):
                kind = op['op']
                data = payload_rng.randbytes(op['size']) if 'size' in op else None
                for svc in services.values():
                    svc.reset_budget()
                expected = None
                if kind in ('upload', 'upload_stream'):
                    if op['name'] in model:
                        probes['overwrite'] = 1
                    old = model.get(op['name'])
                elif kind == 'delete':
                    if op['name'] not in model:
                        probes['delete_missing'] = 1
                elif kind in ('download', 'download_stream') and op['name'] not in model:
                    probes['download_missing'] = 1
                outs = {}
                for bname, b in backends.items():
                    try:
                        if kind == 'upload':
                            reader = None
                            if op.get('reader') and bname == 'local' and old is not None:
                                reader = _start_reader(b.b, op['name'], old, data, res_holder)
                                probes['concurrent_reader'] = 1
                            out = ('ok', await b.call('upload', op['name'], data))
                            if reader is not None:
                                # the reader belongs to this overwrite only: stop it and wait for it
                                reader['stop'] = True
                                CTX.s.block_until(lambda: reader['task'].state == core.DONE, what='reader')
                        elif kind == 'upload_stream':
                            stream = io.BytesIO(data)
                            if substream(case['sched_seed'], f'short{i}').random() < 0.4:
                                stream = gen.ShortReads(data, substream(case['sched_seed'], f'short-reads{i}'))
                                probes['stream_short_reads'] = 1
                            rival = None
                            if op.get('rival') and bname == 'local':
                                rival = _start_rival(b.b, op['name'], payload_rng.randbytes(max(1, op['size'] // 2 + 3)), op['chunk'], res_holder)
                                probes['concurrent_writer'] = 1
                            out = ('ok', await b.call('upload_stream', op['name'], stream, len(data), op['chunk']))
                            if rival is not None:
                                # this upload was acknowledged: from now on the object is a whole payload, whatever the rival is doing
                                mid = bytes(await b.call('download', op['name']))
                                if mid not in (data, rival['data']) and not res_holder.get('reader_violation'):
                                    res_holder['reader_violation'] = {
                                        'cls': 'concurrent-uploads-mixed', 'sig': {'when': 'after-ack'},
                                        'msg': f'upload of {op["name"]!r} ({len(data)} bytes) was acknowledged while a rival upload ({len(rival["data"])} bytes) '
                                               f'was in progress; the object then held {len(mid)} bytes that are neither payload'}
                                CTX.s.block_until(lambda: rival['task'].state == core.DONE, what='rival')
                                # two complete uploads of one name raced: the object is one of the two payloads, whole
                                got = bytes(await b.call('download', op['name']))
                                if got not in (data, rival['data']):
                                    res_holder['reader_violation'] = {
                                        'cls': 'concurrent-uploads-mixed', 'sig': {},
                                        'msg': f'two uploads of {op["name"]!r} overlapped (payloads of {len(data)} and {len(rival["data"])} bytes); '
                                               f'the stored object has {len(got)} bytes and is neither of them'}
                                elif got == rival['data']:
                                    data = rival['data']
                        elif kind == 'delete':
                            out = ('ok', await b.call('delete', op['name']))
                        elif kind == 'exists':
                            out = ('ok', await b.call('exists', op['name']))
                        elif kind == 'download':
                            out = ('ok', bytes(await b.call('download', op['name'])))
                        elif kind == 'download_stream':
                            stream = io.BytesIO(b'residue of an earlier attempt' * 3)
                            await b.call('download_stream', op['name'], stream, op['chunk'])
                            out = ('ok', stream.getvalue())
                        else:
                            out = ('ok', sorted(await b.call('list_files', op['prefix'])))
                            raw = await b.call('list_files', op['prefix'])
                            if len(raw) != len(set(raw)):
                                out = ('ok-dup', sorted(raw))
                    except fakes.BudgetExceeded as e:
                        out = ('unbounded', str(e))
                        _stop_readers(res_holder)
                    except core.SimAbort:
                        raise
                    except Exception as e:  # noqa
                        out = ('error', type(e).__name__)
                        _stop_readers(res_holder)
                    outs[bname] = out
                # ---- model
                if kind in ('upload', 'upload_stream'):
                    model[op['name']] = data
                    want = ('ok', None)
                elif kind == 'delete':
                    model.pop(op['name'], None)
                    want = ('ok', None)
                elif kind == 'exists':
                    want = ('ok', op['name'] in model)
                elif kind in ('download', 'download_stream'):
                    want = ('ok', model[op['name']]) if op['name'] in model else ('error', None)
                else:
                    want = ('ok', sorted(n for n in model if n.startswith(op['prefix'])))
                for bname, out in outs.items():
                    good = out == want or (want[0] == 'error' and out[0] == 'error')
                    if not good:
                        nm = op.get('name', op.get('prefix', ''))
                        viol.append({'cls': f'{kind}-differs-from-map' if out[0] != 'unbounded' else 'unbounded-requests',
                                     'sig': _sig(bname, kind, out, want, nm, spelling),
                                     'msg': f'op {i} {kind}({nm!r}) on {bname} (spelling {spelling!r}): returned {_short(out)}, the name->bytes map says {_short(want)}'})
                        return
                if res_holder.get('reader_violation'):
                    viol.append(res_holder['reader_violation'])
                    return
            # listing page probes
            if services.get('s3') and services['s3'].counters.get('list-page', 0) > sum(1 for o in case['ops'] if o['op'] == 'list') * 2:
                probes['list_multi_page_s3'] = 1
            if services.get('b2') and services['b2'].counters.get('list-page', 0) > sum(1 for o in case['ops'] if o['op'] == 'list') * 2:
                probes['list_multi_page_b2'] = 1
            for bname in ('s3', 'b2'):
                if bname in backends:
                    await backends[bname].b.close()
            return True

        if any(any(ord(c) > 127 for c in n) for n in case['names']):
            probes['name_nonascii'] = 1
        if any(any(c in ALPH[2] + ALPH[3] for c in n) for n in case['names']):
            probes['name_special'] = 1
        if any(n.endswith('.tmp') for n in case['names']):
            probes['name_tmp_suffix'] = 1
        if any(len(seg.encode()) >= 240 for n in case['names'] for seg in n.split('/')):
            probes['name_near_255_bytes'] = 1
        r = world.run_process(env, main, world.SchedOpts.from_dict(case['opts']))
        if not viol:
            if r.hang is not None:
                viol.append({'cls': 'hang', 'sig': {}, 'msg': f'history did not terminate: {r.hang}'})
            elif r.exc is not None:
                raise r.exc
        if 'local' in case['adapters'] and not viol and 'model' in res_holder:
            # whatever the spelling, the objects are where the operating system resolves the repository path to
            on_disk = {}
            for dp, dn, fn in os.walk(root):
                for f in fn:
                    q = os.path.join(dp, f)
                    with open(q, 'rb') as fh:
                        on_disk[os.path.relpath(q, root)] = fh.read()
            want = {k: bytes(v) for k, v in res_holder['model'].items()}
            extra = {k for k in on_disk if k not in want and not k.endswith('.tmp')}
            missing = {k for k in want if k not in on_disk}
            wrong = {k for k in want if k in on_disk and on_disk[k] != want[k]}
            if extra or missing or wrong:
                viol.append({'cls': 'objects-not-in-the-repository-directory', 'sig': {'backend': 'local', 'spelling': spelling},
                             'msg': f'local (spelling {spelling!r} = {loc!r}): after the history the directory the OS resolves the path to holds '
                                    f'{len(on_disk)} files; missing {sorted(missing)[:3]}, unexpected {sorted(extra)[:3]}, different {sorted(wrong)[:3]}'})
        for bname, svc in services.items():
            if bname == 's3' and svc.violations and not viol:
                v = svc.violations[0]
                viol.append({'cls': 'request-rejected-by-service', 'sig': {'backend': 's3'}, 'msg': f'S3 request not acceptable: {v}'})
        return {'violations': viol, 'digest': r.digest, 'nontrivial': True, 'probes': probes, 'sim_s': r.stats['sim_s'], 'steps': r.stats['steps'],
                'fired': {}, 'sample': {'names': case['names'][:6], 'ops': [(o['op'], o.get('name', o.get('prefix'))) for o in case['ops'][:8]],
                                        'spelling': spelling, 'pages': [case['s3_page'], case['b2_page']]}}
    finally:
        os.chdir(cwd)
        CTX.fs = None
        world.remove_scratch(d)


def _start_rival(backend, name, data, chunk, holder):
    """A second simulated thread uploads another payload under the same name at the same time."""
    s = CTX.s
    ctl = {'data': data}

    def body():
        try:
            backend.upload_stream(name, io.BytesIO(data), len(data), chunk)
        except OSError as e:
            # the loser of a race may legitimately fail; a corrupted object may not result
            ctl['error'] = e
    ctl['task'] = s.spawn(body, 'rival-writer')
    return ctl


def _stop_readers(holder):
    for ctl in holder.get('readers', []):
        ctl['stop'] = True


def _start_reader(backend, name, old, new, holder):
    """A concurrent simulated thread that keeps reading `name` while it is being replaced."""
    s = CTX.s
    ctl = {'stop': False}

    def body():
        for _ in range(40):
            if ctl['stop']:
                return
            try:
                if not backend.exists(name):
                    holder['reader_violation'] = {'cls': 'replace-not-atomic', 'sig': {'seen': 'absent'},
                                                  'msg': f'while {name!r} was being overwritten a concurrent exists() returned False'}
                    return
                got = backend.download(name)
                if holder.get('scratch') is not None:
                    # ... and a streamed download into a real file (whose truncate() also extends, unlike BytesIO's)
                    tgt = os.path.join(holder['scratch'], 'reader-download.bin')
                    with open(tgt, 'w+b', buffering=0) as fh:
                        backend.download_stream(name, fh, 64)
                    with open(tgt, 'rb') as fh:
                        got2 = fh.read()
                    if got2 != old and got2 != new:
                        holder['reader_violation'] = {'cls': 'replace-not-atomic', 'sig': {'seen': 'mixture', 'via': 'download_stream'},
                                                      'msg': f'while {name!r} was being overwritten a concurrent download_stream into a file delivered {len(got2)} bytes '
                                                             f'that are neither the old ({len(old)}) nor the new ({len(new)}) object'}
                        return
                listed = list(backend.list_files(''))
                stray = [n for n in listed if n not in holder['known_names']]
                # (names ending in '.tmp' are never listed by Local: known finding C13-local-tmp-suffix-hidden, judged on the main path)
                if stray or (listed.count(name) != 1 and not name.endswith('.tmp')):
                    holder['reader_violation'] = {'cls': 'listing-shows-in-progress-upload', 'sig': {},
                                                  'msg': f'while {name!r} was being overwritten a concurrent listing returned {stray[:3] or listed}'}
                    return
            except FileNotFoundError:
                holder['reader_violation'] = {'cls': 'replace-not-atomic', 'sig': {'seen': 'absent'},
                                              'msg': f'while {name!r} was being overwritten a concurrent reader found it absent'}
                return
            if got != old and got != new:
                holder['reader_violation'] = {'cls': 'replace-not-atomic', 'sig': {'seen': 'mixture'},
                                              'msg': f'while {name!r} was being overwritten a concurrent reader saw {len(got)} bytes that are neither the old nor the new object'}
                return
            s.yield_()
    ctl['task'] = s.spawn(body, 'reader')
    holder.setdefault('readers', []).append(ctl)
    return ctl


def _sig(bname, kind, out, want, name, spelling):
    sig = {'backend': bname, 'op': kind}
    if bname == 'local':
        sig['dot_spelling'] = spelling in ('dot',)
        if kind == 'list' and out[0] == 'ok' and want[0] == 'ok':
            missing = set(want[1]) - set(out[1])
            extra = set(out[1]) - set(want[1])
            sig['only_tmp_names_missing'] = bool(missing) and not extra and all(m.endswith('.tmp') for m in missing)
    if bname == 'b2':
        sig['missing_object'] = want[0] == 'error'
        sig['special_chars'] = any(c in '%?#' for c in name)
    if bname == 's3':
        sig['special_chars'] = any(c in ' +' for c in name)
    return sig


def _short(x):
    r = repr(x)
    return r if len(r) < 300 else r[:300] + '...'


def shrink(case):
    for i in range(len(case['ops']) - 1, -1, -1):
        c = copy.deepcopy(case)
        del c['ops'][i]
        yield c
    if len(case['adapters']) > 1:
        for a in case['adapters']:
            c = copy.deepcopy(case)
            c['adapters'] = [a]
            yield c
    for k, v in (('lat', 0.0), ('spelling', 'abs')):
        if case[k] != v:
            c = copy.deepcopy(case)
            c[k] = v
            yield c

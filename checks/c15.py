"""C15  Restore and the listings select exactly what the filters and timestamps say."""
from sim import history

PROP = 'C15'
TECHNIQUE = 'deterministic simulation: snapshot histories on a simulated clock with seeded filters/columns vs a reference history model'
LEVEL = 'exploration'
RULE = ('one case = a seeded history of 2..8 snapshots with distinct simulated timestamps (incl. whole seconds, day roll-over) '
        'over file sets where paths appear, change and disappear, by 1..2 users, interleaved with restore / list-snapshots / '
        'list-files under seeded snapshot and file regexes (prefixes, substrings, alternations of real names, anchors, none), '
        'seeded column selections and header on/off, and deletes by printed name; oracle = RefHistory: restored tree = newest '
        'matching readable version of each matching path and nothing else; listing rows parsed from stdout = exactly the '
        'readable snapshots/files, newest first, with true sizes (independent human-size formatter), counts, digests, times. '
        'distinct_nontrivial = distinct event-log digests among histories with >= 1 snapshot')
COMPONENTS = {
    'real': ['replicat.repository.Repository (restore, list_snapshots, list_files, delete_snapshots)', 'replicat.utils (columns, bytes_to_human)'],
    'stub': ['OS thread scheduling', 'clocks (snapshot timestamps chosen by the simulator)', 'os.urandom', 'object store (SimStore)'],
    'reference': ['sim/history.py RefHistory model', 'sim/ref_format.py'],
}
ASSUMPTIONS = ['snapshot timestamps are distinct', 'notes and paths contain no tab / newline (table parsing)']
PROBES = ['delete']
TIERS = {'quick': {'budget_s': 70, 'batch': 10}, 'thorough': {'budget_s': 900, 'batch': 20}}
ORACLES = ('store', 'selection', 'listing')


def gen_case(seed, tier):
    return history.gen_history(seed, 'c15', max_users=2, nops=(4, 24) if tier == 'thorough' else (4, 14), destructive=True, reads=True, filters=True,
                               p_snapshot=0.4)


def run_case(case):
    return history.History(case, 'c15', ORACLES).run()


def shrink(case):
    return history.shrink_history(case)

"""C15  Restore and the listings select exactly what the filters and timestamps say."""
from sim import history

PROP = 'C15'
TECHNIQUE = 'deterministic simulation: snapshot histories on a simulated clock with seeded filters/columns vs a reference history model'
LEVEL = 'exploration'
RULE = ('[users are processes per command or long-lived programs that keep one Repository object across commands] one case = a seeded history of 2..8 snapshots with distinct simulated timestamps (incl. whole seconds, day roll-over) '
        'over file sets where paths appear, change and disappear, by 1..2 users, interleaved with restore / list-snapshots / '
        'list-files under seeded snapshot and file regexes (prefixes, substrings, alternations of real names, anchors, none), '
        'seeded column selections and header on/off, and deletes by printed name; oracle = RefHistory: restored tree = newest '
        'matching readable version of each matching path and nothing else; listing rows parsed from stdout = exactly the '
        'readable snapshots/files, newest first, with true sizes (independent human-size formatter), counts, digests, times. '
        'distinct_nontrivial = distinct event-log digests among histories with >= 1 snapshot')
COMPONENTS = {
    'real': ['replicat.repository.Repository (restore, list_snapshots, list_files, delete_snapshots)', 'replicat.utils (columns, bytes_to_human)'],
    'stub': ['OS thread scheduling', 'clocks (snapshot timestamps chosen by the simulator)', 'os.urandom', 'object store (SimStore)'],
    'reference': ['sim/history.py RefHistory model', 'sim/ref_format.py'],
}
ASSUMPTIONS = ['snapshot timestamps are distinct', 'the process time zone is varied per case (TZ + tzset), incl. histories across DST switches', 'notes and paths contain no tab / newline (table parsing)']
PROBES = ['clock_stepped_back', 'delete', 'dst_switch_history']
TIERS = {'quick': {'budget_s': 70, 'batch': 10}, 'thorough': {'budget_s': 900, 'batch': 20}}
ORACLES = ('store', 'selection', 'listing')


TZS = ['UTC0', 'CET-1CEST,M3.5.0,M10.5.0/3', 'EST5EDT,M3.2.0,M11.1.0', 'AEST-10AEDT,M10.1.0,M4.1.0/3', 'IST-5:30']


def gen_case(seed, tier):
    case = _gen_case(seed, tier)
    from sim.core import substream
    rng = substream(seed, 'c15-tz')
    # the machine's local time zone must not matter: timestamps are UTC. Some histories sit on a DST switch.
    case['tz'] = rng.choice(TZS)
    if rng.random() < 0.35:
        case['tz'] = 'CET-1CEST,M3.5.0,M10.5.0/3'
        case['epoch'] = rng.choice(['2024-03-31 00:40:00', '2021-03-28 01:10:00', '2024-10-27 00:05:00'])
        t = 0.0
        for op in case['ops']:
            if 'at' in op:
                t += rng.choice([600, 1200, 1500, 2400, 3000])
                op['at'] = t
    return case


def _gen_case(seed, tier):
    return history.gen_history(seed, 'c15', max_users=2, nops=(4, 24) if tier == 'thorough' else (4, 14), destructive=True, reads=True, filters=True,
                               p_snapshot=0.4, many=0.08)


def run_case(case):
    import os
    import time
    saved = os.environ.get('TZ')
    os.environ['TZ'] = case.get('tz', 'UTC0')
    time.tzset()
    try:
        H = history.History(case, 'c15', ORACLES)
        if case.get('epoch'):
            import datetime as _dt
            H.epoch = H.W.env.epoch = _dt.datetime.fromisoformat(case['epoch'])
            H.probe('dst_switch_history')
        return H.run()
    finally:
        if saved is None:
            os.environ.pop('TZ', None)
        else:
            os.environ['TZ'] = saved
        time.tzset()


def shrink(case):
    return history.shrink_history(case)

"""C16  Every request sent to an S3 service is correctly signed."""
import copy
import datetime as _dt
import io

from sim import core, fakes, gen, install, world
from sim.core import substream
from sim.install import CTX
from checks import c13

PROP = 'C16'
TECHNIQUE = 'deterministic simulation: every request reaching the fake S3 service re-verified by an independent SigV4 implementation; simulated clock incl. date roll-over and retries'
LEVEL = 'exploration'
RULE = ('one case = a seeded sequence of 8..30 adapter operations (upload of bytes, streamed upload - half of them from a stream whose read(n) returns short counts before the end -, HEAD, GET, streamed GET, DELETE, prefix '
        'listing with server page sizes 1..3 and continuation tokens containing +,/,=,&,%,space and non-ASCII) on the REAL S3Compatible / S3 '
        'adapter with seeded object names and prefixes over printable ASCII (space + = & % * ~ quotes parentheses ? #) and non-ASCII, seeded '
        'endpoint (lower-case, mixed case, explicit non-default port, explicit default port, http/https), region, credentials, a simulated '
        'clock placed anywhere in the day incl. seconds before midnight, and seeded transient faults (so that retried attempts are signed at '
        'a later time, across date changes; 301/307 answers pointing at another spelling of the resource or another host). Every request that reaches FakeS3 is re-verified from its wire bytes (method, raw target, '
        'headers as sent, body received) by an independent SigV4 implementation (sim/ref_sigv4.py); payload hash and content-length must '
        'match the body; the Host header must be the endpoint. distinct_nontrivial = distinct event-log digests')
COMPONENTS = {
    'real': ['replicat.backends.s3c.S3Compatible (_prepare_request, canonical request, signing key, all operations)', 'replicat.backends.s3.S3', 'httpx request construction (URL normalisation, Host header, body streaming)', 'backoff'],
    'stub': ['FakeS3 behind httpx transport', 'clock (datetime.utcnow in replicat.backends.s3c)'],
    'reference': ['sim/ref_sigv4.py (AWS SigV4 for S3 from the published algorithm)'],
}
ASSUMPTIONS = ['FakeS3 canonicalises like S3: path segments and query pairs percent-decoded then re-encoded with the AWS unreserved set, + in a query means space']
PROBES = ['e2e_commands', 'e2e_limit_below_16N', 'redirected', 'retry_signed', 'date_rollover', 'host_mixed_case', 'host_default_port', 'host_custom_port', 'token_special', 'stream_upload', 'stream_short_reads', 'list_multi_page', 'name_special', 'aws_s3_class']
TIERS = {'quick': {'budget_s': 50, 'batch': 20}, 'thorough': {'budget_s': 600, 'batch': 40}}


def gen_case(seed, tier):
    rng = substream(seed, 'c16')
    erng = substream(seed, 'c16-e2e')
    if erng.random() < 0.06:
        # the real commands over the adapter, optionally with a bandwidth limit (the limiter and the block size the command
        # picks sit between the stream and the signer), incl. limits below 16 x concurrency
        tree = gen.tree_spec(erng, mn=8, mx=64, nfiles=erng.choice([1, 2, 3]), max_size=300, allow_nonutf8=False, min_files=1)
        return {'seed': seed, 'sched_seed': seed, 'kind': 'e2e', 'tree': tree, 'N': erng.choice([1, 2, 5]),
                'rate_limit': erng.choice([None, 7, 15, 40, 100, 1000, 10**6]), 'encrypted': erng.random() < 0.5,
                'page': erng.choice([1, 2, 1000]), 'opts': world.SchedOpts.swarm(erng).as_dict()}
    special_p = rng.choice([0.2, 0.6, 0.9])
    names = c13.gen_names(rng, rng.randrange(2, 8), special_p)
    ops = []
    for _ in range(rng.randrange(8, 30)):
        k = rng.random()
        name = rng.choice(names)
        size = rng.choice([0, 1, 5, 64, 300])
        if k < 0.25:
            ops.append({'op': 'upload', 'name': name, 'size': size})
        elif k < 0.4:
            ops.append({'op': 'upload_stream', 'name': name, 'size': size, 'chunk': rng.choice([1, 7, 64])})
        elif k < 0.5:
            ops.append({'op': 'delete', 'name': name})
        elif k < 0.6:
            ops.append({'op': 'exists', 'name': name})
        elif k < 0.7:
            ops.append({'op': 'download', 'name': name})
        elif k < 0.78:
            ops.append({'op': 'download_stream', 'name': name, 'chunk': rng.choice([1, 7, 64])})
        else:
            p = rng.random()
            prefix = '' if p < 0.3 else (name[:rng.randrange(0, len(name) + 1)] if p < 0.8 else rng.choice([' ', 'a b', 'x+y', 'q=1&r', '%41', 'é', '~*()\'']))
            ops.append({'op': 'list', 'prefix': prefix})
    hk = rng.random()
    scheme = rng.choice(['https', 'https', 'http'])
    base = rng.choice(['s3.fake.test', 'minio.internal', 'storage.example.org', '10.1.2.3'])
    if hk < 0.5:
        host = base
    elif hk < 0.65:
        host = base + ':' + str(rng.choice([9000, 8443, 8080]))
    elif hk < 0.8:
        host = base + (':443' if scheme == 'https' else ':80')
    else:
        host = base.upper() if not base[0].isdigit() else base
        if rng.random() < 0.5:
            host = host[:2].lower() + host[2:]
    faults = []
    for _ in range(rng.choice([0, 0, 1, 2])):
        faults.append({'kind': rng.choice(['status:500', 'status:503', 'read', 'connect', 'status:307', 'status:307:other-endpoint.test', 'status:301']), 'op': rng.choice(['put', 'get', 'list', 'head', 'delete']),
                       'count': rng.choice([1, 2]), 'skip': rng.randrange(0, 3), 'after_chunks': rng.choice([None, None, 1]), 'lost_response': rng.random() < 0.2})
    tod = rng.choice([rng.randrange(0, 86400), 86399, 86398, 86390, 0, 43200])
    return {'seed': seed, 'sched_seed': seed, 'names': names, 'ops': ops, 'host': host, 'scheme': scheme,
            'region': rng.choice(['us-east-1', 'eu-central-1', 'garage', 'auto']), 'key_id': rng.choice(['AKIDEXAMPLE', 'key-' + str(rng.randrange(10**6))]),
            'secret': ''.join(rng.choice('abcdefghijklmnopqrstuvwxyzABCDEFGHIJKLMNOPQRSTUVWXYZ0123456789/+') for _ in range(40)),
            'bucket': rng.choice(['bucket-1', 'my.bucket', 'b']), 'page': rng.choice([1, 2, 3, 1000]), 'token_style': rng.choice(['urlsafe', 'b64std', 'weird']),
            'faults': faults, 'time_of_day': tod, 'day': rng.randrange(0, 20000), 'lat': rng.choice([0.0, 0.3, 2.0]),
            'aws_class': rng.random() < 0.15, 'tick': rng.choice([0.0, 0.0, 0.001, 0.2]), 'opts': world.SchedOpts.swarm(rng).as_dict()}


def run_e2e(case):
    from sim import harness
    viol, probes = [], {'e2e_commands': 1}
    W = harness.World(case['sched_seed'], 'c16e', flavour='async', lat_kind='zero')
    try:
        files = gen.materialize(W.dir / 'src', case['tree'])
        svc = fakes.FakeS3(bucket='bkt', key_id='AKID', secret='secret/key+1', region='us-east-1', host='s3.fake.test',
                           page_size=case['page'], latency=0.0, faults=[], request_budget=None)
        W.make_backend_override = lambda: fakes.make_s3(svc)
        client = world.Client('u', password=b'pw' if case['encrypted'] else None, concurrent=case['N'])
        settings = {'chunking': {'min_length': 8, 'max_length': 64},
                    'encryption': {'kdf': {'name': 'scrypt', 'n': 2, 'r': 1}} if case['encrypted'] else None}
        opts = world.SchedOpts.from_dict(case['opts'])
        L = case['rate_limit']
        if L is not None and L < 16 * case['N']:
            probes['e2e_limit_below_16N'] = 1
        steps = (('init', lambda: W.init(client, settings, world.SchedOpts.sequential())),
                 ('snapshot', lambda: W.snapshot(client, [W.dir / 'src'], opts, rate_limit=L)),
                 ('restore', lambda: W.restore(client, W.dir / 'out', opts, rate_limit=L)))
        for name, run in steps:
            r = run()
            if svc.violations:
                v = svc.violations[0]
                viol.append({'cls': 'request-not-verifiable', 'sig': {'kind': 'e2e', 'cmd': name},
                             'msg': f'{name} (rate limit {L}, concurrency {case["N"]}): {v["method"]} {v["target"]}: {v["error"]}'})
                break
            if not r.ok:
                viol.append({'cls': 'command-failed', 'sig': {'kind': 'e2e', 'cmd': name},
                             'msg': f'{name} over S3 (rate limit {L}, concurrency {case["N"]}) failed: {r.outcome()} {r.exc or r.hang!r}'})
                break
        if not viol:
            got = gen.read_tree(W.dir / 'out')
            want = {str(harness.restored_path(W.dir / 'out', p).relative_to(W.dir / 'out')): v for p, v in files.items()}
            if got != want:
                viol.append({'cls': 'wrong-answer', 'sig': {'kind': 'e2e'}, 'msg': f'snapshot + restore over S3 (rate limit {L}) does not reproduce the files'})
        return {'violations': viol, 'digest': W.digest(), 'nontrivial': True, 'probes': probes, 'evaluations': svc.signed_ok, 'sim_s': W.sim_s, 'steps': W.sim_steps,
                'sample': {'kind': 'e2e', 'rate_limit': L, 'N': case['N'], 'requests': len(svc.requests)}}
    finally:
        W.close()


def run_case(case):
    if case.get('kind') == 'e2e':
        return run_e2e(case)
    install.install_once()
    viol, probes = [], {}
    epoch = _dt.datetime(1990, 1, 1) + _dt.timedelta(days=case['day'], seconds=case['time_of_day'], microseconds=500000)
    env = install.Env(case['sched_seed'], epoch=epoch)
    env.clock_tick = case.get('tick', 0.0)      # time passes between two reads of the clock
    svc_holder = {}
    payload_rng = substream(case['sched_seed'], 'payload')
    host = case['host']
    if host != host.lower():
        probes['host_mixed_case'] = 1
    if host.endswith(':443') or host.endswith(':80'):
        probes['host_default_port'] = 1
    elif ':' in host:
        probes['host_custom_port'] = 1
    if case['token_style'] != 'urlsafe':
        probes['token_special'] = 1
    if any(any(c in ' +=&%*~\'()?#' for c in n) for n in case['names']):
        probes['name_special'] = 1

    async def main(res):
        if case['aws_class']:
            import replicat.backends.s3 as S3
            probes['aws_s3_class'] = 1
            region = case['region']
            real_host = f's3.{region}.amazonaws.com'
            svc = fakes.FakeS3(bucket=case['bucket'], key_id=case['key_id'], secret=case['secret'], region=region, host=real_host,
                               page_size=case['page'], latency=case['lat'], token_style=case['token_style'],
                               faults=[fakes.Fault.from_dict(f) for f in case['faults']], request_budget=None)
            b = S3.S3(case['bucket'], key_id=case['key_id'], access_key=case['secret'], region=region)
            fakes.attach(b, svc)
        else:
            expected_host = host.lower()
            for sfx, sch in ((':443', 'https'), (':80', 'http')):
                if expected_host.endswith(sfx) and case['scheme'] == sch:
                    expected_host = expected_host[:-len(sfx)]
            svc = fakes.FakeS3(bucket=case['bucket'], key_id=case['key_id'], secret=case['secret'], region=case['region'], host=expected_host,
                               page_size=case['page'], latency=case['lat'], token_style=case['token_style'],
                               faults=[fakes.Fault.from_dict(f) for f in case['faults']], request_budget=None)
            import replicat.backends.s3c as S3C
            b = S3C.S3Compatible(case['bucket'], key_id=case['key_id'], access_key=case['secret'], region=case['region'], host=host, scheme=case['scheme'])
            fakes.attach(b, svc)
        svc_holder['svc'] = svc
        ops = c13.Ops(b)
        for i, op in enumerate(case['ops']):
            kind = op['op']
            data = payload_rng.randbytes(op['size']) if 'size' in op else None
            model = dict(svc.objects)      # ground truth held by the service (uploads with a lost response are applied)
            try:
                if kind == 'upload':
                    await ops.call('upload', op['name'], data)
                elif kind == 'upload_stream':
                    probes['stream_upload'] = 1
                    stream = io.BytesIO(data)
                    if substream(case['sched_seed'], f'short{i}').random() < 0.5:
                        stream = gen.ShortReads(data, substream(case['sched_seed'], f'short-reads{i}'))
                        probes['stream_short_reads'] = 1
                    await ops.call('upload_stream', op['name'], stream, len(data), op['chunk'])
                elif kind == 'delete':
                    await ops.call('delete', op['name'])
                elif kind == 'exists':
                    r = await ops.call('exists', op['name'])
                    if r != (op['name'] in model):
                        viol.append({'cls': 'wrong-answer', 'sig': {'op': kind}, 'msg': f'exists({op["name"]!r}) = {r}, object present: {op["name"] in model}'})
                        return
                elif kind == 'download':
                    r = await ops.call('download', op['name'])
                    if op['name'] in model and bytes(r) != model[op['name']]:
                        viol.append({'cls': 'wrong-answer', 'sig': {'op': kind}, 'msg': f'download({op["name"]!r}) returned other bytes'})
                        return
                elif kind == 'download_stream':
                    st = io.BytesIO()
                    await ops.call('download_stream', op['name'], st, op['chunk'])
                    if op['name'] in model and st.getvalue() != model[op['name']]:
                        viol.append({'cls': 'wrong-answer', 'sig': {'op': kind}, 'msg': f'download_stream({op["name"]!r}) returned other bytes'})
                        return
                else:
                    r = sorted(await ops.call('list_files', op['prefix']))
                    want = sorted(n for n in model if n.startswith(op['prefix']))
                    if r != want and not svc.violations:
                        viol.append({'cls': 'wrong-answer', 'sig': {'op': kind}, 'msg': f'list({op["prefix"]!r}) = {r[:4]}, expected {want[:4]}'})
                        return
            except core.SimAbort:
                raise
            except Exception as e:  # noqa   (missing objects, exhausted retries: not this property's concern)
                pass
            if svc.violations:
                return
        await b.close()

    r = world.run_process(env, main, world.SchedOpts.from_dict(case['opts']))
    svc = svc_holder.get('svc')
    if r.hang is not None:
        viol.append({'cls': 'hang', 'sig': {}, 'msg': f'{r.hang}'})
    if svc is not None:
        if svc.violations:
            v = svc.violations[0]
            err = v['error']
            kind = ('host' if err.startswith('Host header') else 'payload' if 'content-sha256' in err or 'content-length' in err
                    else 'token' if 'continuation token' in err else 'signature')
            viol.insert(0, {'cls': 'request-not-verifiable', 'sig': {'kind': kind, 'host_as_given': case['host'] == case['host'].lower() and not case['host'].endswith((':443', ':80'))},
                            'msg': f'{v.get("method", "")} {v.get("target", "")[:120]} (endpoint {case["scheme"]}://{case["host"]}): {err[:700]}'})
        if svc.counters.get('list-page', 0) > sum(1 for o in case['ops'] if o['op'] == 'list'):
            probes['list_multi_page'] = 1
        if any(f.fired for f in svc.faults):
            probes['retry_signed'] = 1
        if any(f.fired and f.kind.startswith('status:30') for f in svc.faults):
            probes['redirected'] = 1
        days = {rq for rq in ()}
    if env.utcnow().date() != epoch.date():
        probes['date_rollover'] = 1
    return {'violations': viol, 'digest': r.digest, 'nontrivial': True, 'probes': probes, 'sim_s': r.stats['sim_s'], 'steps': r.stats['steps'],
            'fired': dict(svc.counters) if svc else {}, 'evaluations': max(1, svc.signed_ok if svc else 1),
            'sample': {'endpoint': f'{case["scheme"]}://{case["host"]}', 'region': case['region'], 'names': case['names'][:4],
                       'ops': [(o['op'], o.get('name', o.get('prefix'))) for o in case['ops'][:6]], 'requests_verified': svc.signed_ok if svc else 0,
                       'clock': str(epoch)}}


def shrink(case):
    if case.get('kind') == 'e2e':
        for i in range(len(case['tree'])):
            if len(case['tree']) > 1:
                c = copy.deepcopy(case)
                del c['tree'][i]
                yield c
        return
    for i in range(len(case['ops']) - 1, -1, -1):
        c = copy.deepcopy(case)
        del c['ops'][i]
        yield c
    if case['faults']:
        c = copy.deepcopy(case)
        c['faults'] = []
        yield c
    for k, v in (('lat', 0.0), ('page', 1000), ('token_style', 'urlsafe'), ('aws_class', False)):
        if case[k] != v:
            c = copy.deepcopy(case)
            c[k] = v
            yield c

"""C18  The snapshot cache never changes what a command does."""
import copy
import os
import shutil
from pathlib import Path

from sim import gen, harness, history, world
from sim.core import substream

PROP = 'C18'
TECHNIQUE = 'deterministic simulation with fault injection: forked universes (cache vs no cache) per command, enumerated torn cache entries, two concurrent clients on one cache directory'
LEVEL = 'fault_enumeration'
RULE = ('one case = a seeded history (snapshot, delete, clean, restore, listings) by 1..3 clients whose cache directories are separate, '
        'shared between keys, shared with a second repository, or made stale by other clients. Before every command the universe is '
        'forked (store copy, same urandom sub-stream and clock for the command): branch B runs it with the cache disabled, branch A with '
        'the cache; they must agree on raised/returned, return value, stdout, restored tree and resulting store. Additionally, for '
        'commands that read cache entries, every entry of the client is replaced in turn by: removed, empty, and proper prefixes of its '
        'content (0, 1, len/2, len-1 and seeded lengths; a seeded subset of 6 (quick) / 24 (thorough) variants per command) - the states '
        'an interrupted cache write can leave - and branch A is re-run on each. evaluations = branch comparisons; distinct_nontrivial = distinct (command, cache state) '
        'digests')
COMPONENTS = {
    'real': ['replicat.repository.Repository (_load_snapshots, _download_snapshot_threadsafe, cache read/write/evict, all commands)'],
    'stub': ['OS thread scheduling', 'clocks (constant per command in this profile)', 'os.urandom (reseeded per command in this profile)', 'object store (SimStore)'],
    'real-fs': ['cache directory on tmpfs, torn states constructed directly'],
}
ASSUMPTIONS = ['an interrupted write_bytes leaves the entry missing, empty or a proper prefix (process-kill model)',
               'both branches see the same urandom stream and clock for the command, so any difference is the cache\'s']
PROBES = ['pair', 'pair_cold_cache', 'pair_second_client_twice', 'cache_hit_possible', 'torn_prefix', 'torn_empty', 'torn_removed', 'torn_entry_old', 'shared_cache', 'second_repository', 'second_repository_other_kind', 'stale_entries', 'delete', 'clean']
TIERS = {'quick': {'budget_s': 60, 'batch': 4}, 'thorough': {'budget_s': 900, 'batch': 8}}


def gen_case(seed, tier):
    rng = substream(seed, 'c18')
    case = history.gen_history(seed, 'c18h', nops=(3, 9), destructive=True, reads=True, filters=False, p_snapshot=0.4)
    case['cache_mode'] = rng.choice(['own', 'own', 'shared', 'shared', 'second-repo'])
    case['torn_budget'] = 6 if tier == 'quick' else 24
    case['torn_seed'] = rng.randrange(1 << 30)
    case['opts']['hot_p'] = rng.choice([0.0, 0.2, 0.5])
    # two clients running read-only commands at the same time on one (possibly cold) shared cache directory
    nsnap = 0
    out = []
    for op in case['ops']:
        out.append(op)
        if op['op'] == 'snapshot':
            nsnap += 1
        if nsnap and rng.random() < 0.25:
            out.append({'op': 'pair', 'ua': rng.randrange(len(case['users'])), 'ub': rng.randrange(len(case['users'])),
                        'kb': rng.choice(['restore', 'ls', 'lf']), 'cold': rng.random() < 0.7,
                        'b_twice': substream(seed, f'c18-twice{len(out)}').random() < 0.5})
    case['ops'] = out
    return case


def _cache_files(d):
    out = []
    for dp, dn, fn in os.walk(d):
        for f in sorted(fn):
            out.append(Path(dp, f))
    return sorted(out)


def _save_dir(d):
    return {str(p.relative_to(d)): p.read_bytes() for p in _cache_files(d)} if Path(d).exists() else {}


def _load_dir(d, content, age=0):
    """(Re)create the cache directory; `age` seconds ago is when its entries were last written -
    caches live for months, and nothing may depend on how recently an entry was touched."""
    import time as _time
    shutil.rmtree(d, ignore_errors=True)
    Path(d).mkdir(parents=True, exist_ok=True)
    for rel, data in content.items():
        p = Path(d, rel)
        p.parent.mkdir(parents=True, exist_ok=True)
        p.write_bytes(data)
        if age:
            t = _time.time() - age
            os.utime(p, (t, t))


def run_command(H, op, i, cache_dirs, use_cache):
    """Run op as user op['u']; returns a comparable outcome dict."""
    W = H.W
    u = op['u']
    client = copy.copy(H.clients[u])
    client.cache_dir = cache_dirs[u] if use_cache else None
    W.env.urandom = substream(H.case['sched_seed'], f'urandom-cmd{i}')
    W.env.jitter = substream(H.case['sched_seed'], f'jitter-cmd{i}')
    W.env.memory = substream(H.case['sched_seed'], f'memory-cmd{i}')
    import datetime as _dt
    W.env.fixed_utcnow = H.epoch + _dt.timedelta(seconds=op.get('at', 3 * 10**6 + i))
    kind = op['op']
    out = {'kind': kind}
    target = None
    if kind == 'snapshot':
        d, files = H.materialize(op)
        r = W.snapshot(client, [d], H.opts, note=op.get('note'))
        out['files'] = files
        if r.ok:
            out['value'] = (r.value['name'], r.value['location'])
    elif kind == 'delete':
        mine = H.live(u)
        if not mine:
            return None
        victims = []
        for k in op['pick']:
            s = mine[k % len(mine)]
            if s not in victims:
                victims.append(s)
        out['victims'] = victims
        r = W.delete(client, [s.name for s in victims], H.opts)
    elif kind == 'clean':
        r = W.clean(client, H.opts)
    elif kind == 'restore':
        target = W.dir / f'restore-{"A" if use_cache else "B"}'
        shutil.rmtree(target, ignore_errors=True)
        r = W.restore(client, target, H.opts)
        if r.ok:
            out['value'] = sorted(r.value['files'])
        out['tree'] = gen.read_tree(target)
        shutil.rmtree(target, ignore_errors=True)
    elif kind == 'ls':
        r = W.list_snapshots(client, H.opts)
    elif kind == 'lf':
        r = W.list_files(client, H.opts)
    else:
        return None
    out['outcome'] = r.outcome() if r.exc is None else 'raised:' + type(r.exc).__name__
    out['exc'] = repr(r.exc)[:200] if r.exc is not None else None
    out['stdout'] = sorted(r.stdout.splitlines()) if kind in ('ls', 'lf') else None
    out['store'] = dict(W.state.objects)
    out['hang'] = r.hang
    return out


def run_pair(H, op, i, cache_dirs, mode):
    """Client A restores while client B restores / lists, both through the same cache directory, in one
    simulated process (two Repository objects, two backend adapters, one loop).  Both must behave exactly
    like the same commands without a cache."""
    import asyncio
    import replicat.repository as R
    from sim import store as _store
    W = H.W
    shared = str(W.dir / 'cache-shared') if mode != 'own' else cache_dirs[op['ua']]
    # baseline: no cache, one after the other
    base = {}
    fork = history.Fork(H)
    for who, u, kind in (('a', op['ua'], 'restore'), ('b', op['ub'], op['kb'])):
        b = run_command(H, {'op': kind, 'u': u}, i, cache_dirs, use_cache=False)
        base[who] = b
    fork.restore()
    saved = _save_dir(shared)
    if op['cold']:
        shutil.rmtree(shared, ignore_errors=True)
        H.probe('pair_cold_cache')
    W.env.urandom = substream(H.case['sched_seed'], f'urandom-cmd{i}')
    res = {}

    def mk(who, u, kind):
        client = H.clients[u]

        async def run_one():
            out = None
            # client B may issue its command twice in a row (the second time it finds what the first one cached)
            # while client A is still busy with its first
            for rep in range(2 if who == 'b' and op.get('b_twice') else 1):
                out = await once()
            return out

        async def once():
            backend = (_store.AsyncSimStore if W.flavour == 'async' else _store.SimStore)(W.state, W.profile())
            repo = R.Repository(backend, concurrent=client.concurrent, quiet=True, cache_directory=shared)
            await repo.unlock(password=client.password, key=client.key)
            out = None
            if kind == 'restore':
                t = W.dir / f'pair-{who}'
                shutil.rmtree(t, ignore_errors=True)
                r = await repo.restore(path=t)
                out = (sorted(r.files), gen.read_tree(t))
                shutil.rmtree(t, ignore_errors=True)
            elif kind == 'ls':
                await repo.list_snapshots()
            else:
                await repo.list_files()
            await repo.close()
            return out
        return run_one

    async def main(r_):
        return await asyncio.gather(mk('a', op['ua'], 'restore')(), mk('b', op['ub'], op['kb'])(), return_exceptions=True)
    r = world.run_process(W.env, main, H.opts)
    W.sim_steps += r.stats['steps']
    W.sim_s += r.stats['sim_s']
    W.digests.append(r.digest)
    H.probe('pair')
    if op.get('b_twice'):
        H.probe('pair_second_client_twice')
    if not r.ok:
        H.flag('cache-changes-result', f'two clients on one cache directory: process did not finish: {r.outcome()} {r.exc or r.hang!r}', diff='hang', op='pair', mode=mode)
    else:
        for who, x, kind in (('a', r.value[0], 'restore'), ('b', r.value[1], op['kb'])):
            b = base[who]
            if isinstance(x, BaseException):
                if b['outcome'] == 'ok':
                    H.flag('cache-changes-result', f'two clients sharing a {"cold " if op["cold"] else ""}cache directory at the same time: {kind} by '
                           f'u{op["ua"] if who == "a" else op["ub"]} raised {x!r}; without the cache it succeeds', diff='outcome', op='pair', mode=mode)
                    break
            elif kind == 'restore':
                if b['outcome'] != 'ok' or x[0] != b.get('value') or x[1] != b.get('tree'):
                    H.flag('cache-changes-result', f'two clients sharing a cache directory: restore differs from the cache-less run', diff='tree', op='pair', mode=mode)
                    break
            elif b['outcome'] != 'ok':
                H.flag('cache-changes-result', f'two clients sharing a cache directory: {kind} succeeded, without the cache it gives {b["outcome"]}', diff='outcome', op='pair', mode=mode)
                break
    if not H.viol:
        pass
    return 1


def compare(a, b):
    for k in ('outcome', 'value', 'stdout', 'tree'):
        if a.get(k) != b.get(k):
            return k
    if a['store'] != b['store']:
        return 'store'
    return None


HOT = frozenset({'_get_cached', '_store_cached', '_delete_cached', '_download_snapshot_threadsafe', '_download_snapshot'})


def run_case(case):
    from sim.install import CTX
    saved = CTX.hot_names, CTX.hot_substr, CTX.hot_hold_p
    CTX.hot_names = HOT       # the cache code is where this property lives: pre-empt there far more often,
    CTX.hot_substr = ('cached',)   # (any function with "cached" in its name)
    CTX.hot_hold_p = 0.03     # and hold a task there until other tasks are in that code too
    try:
        return _run_case(case)
    finally:
        CTX.hot_names, CTX.hot_substr, CTX.hot_hold_p = saved


def _run_case(case):
    H = history.History({k: v for k, v in case.items()}, 'c18', ())
    W = H.W
    evaluations = 0
    digests = set()
    samples = []
    try:
        try:
            H.setup()
        except history.Violation as v:
            return {'violations': [{'cls': v.cls, 'msg': v.msg, 'sig': v.sig}], 'digest': W.digest()}
        n = len(H.clients)
        mode = case['cache_mode']
        if mode == 'own':
            cache_dirs = [str(W.dir / f'cache-{i}') for i in range(n)]
        else:
            cache_dirs = [str(W.dir / 'cache-shared')] * n
            H.probe('shared_cache')
        if mode == 'second-repo':
            # another repository (own store) used with the same cache directory beforehand
            W2 = harness.World(case['sched_seed'] ^ 0x2222, 'c18b', flavour=case['flavour'], lat_kind='zero', scratch=False)
            c2 = world.Client('other', password=b'other repo pw' if H.enc else None, concurrent=1, cache_dir=cache_dirs[0])
            W2.dir = W.dir
            settings2 = case['settings']
            if substream(case['sched_seed'], 'second-repo').random() < 0.5:
                # ... of the other kind: unencrypted next to an encrypted one, or the reverse
                settings2 = dict(case['settings'])
                settings2['encryption'] = None if H.enc else {'kdf': {'name': 'scrypt', 'n': 2, 'r': 1}}
                c2.password = None if H.enc else b'other repo pw'
                H.probe('second_repository_other_kind')
            r = W2.init(c2, settings2, world.SchedOpts.sequential())
            src2 = W.dir / 'src-other'
            src2.mkdir()
            (src2 / 'o.bin').write_bytes(b'other repository data' * 3)
            os.utime(src2 / 'o.bin', ns=(10**18, 10**18))
            if r.ok:
                W2.snapshot(c2, [src2], world.SchedOpts.sequential())
                W2.list_snapshots(c2, world.SchedOpts.sequential())
                H.probe('second_repository')
        trng = substream(case['torn_seed'], 'torn')
        for i, op in enumerate(case['ops']):
            H.opi = i
            if op['op'] == 'pair':
                evaluations += run_pair(H, op, i, cache_dirs, mode)
                if H.viol:
                    break
                continue
            if op['op'] not in ('snapshot', 'delete', 'clean', 'restore', 'ls', 'lf'):
                continue
            fork = history.Fork(H)
            b = run_command(H, op, i, cache_dirs, use_cache=False)
            if b is None:
                continue
            if b['hang'] is not None:
                H.flag('command-hang', f'{op["op"]} without cache did not terminate: {b["hang"]}')
                break
            cache_before = {d: _save_dir(d) for d in set(cache_dirs)}
            entries = sorted(cache_before[cache_dirs[op['u']]].items())
            if entries:
                H.probe('cache_hit_possible')
            listed = {k for k in fork.state0.objects if k.startswith('snapshots/')}
            if any(rel not in listed for rel, _ in entries):
                H.probe('stale_entries')
            # ---- torn / missing / empty variants of each entry this client would read
            if op['op'] != 'snapshot' and entries:
                variants = []
                for rel, data in entries:
                    if rel not in listed:
                        continue
                    lens = sorted(set([0, 1, len(data) - 1, len(data) // 2] + [trng.randrange(0, len(data)) for _ in range(3)]
))
                    for ln in lens:
                        if 0 <= ln < len(data):
                            variants.append((rel, ln))
                    variants.append((rel, None))
                trng.shuffle(variants)
                for rel, ln in variants[:case['torn_budget']]:
                    fork.restore()
                    torn = dict(cache_before[cache_dirs[op['u']]])
                    if ln is None:
                        del torn[rel]
                        H.probe('torn_removed')
                    else:
                        torn[rel] = torn[rel][:ln]
                        H.probe('torn_prefix' if ln else 'torn_empty')
                    age = trng.choice([0, 0, 700, 86400, 10**7])
                    if age:
                        H.probe('torn_entry_old')
                    _load_dir(cache_dirs[op['u']], torn, age)
                    a = run_command(H, op, i, cache_dirs, use_cache=True)
                    evaluations += 1
                    digests.add((op['op'], rel[-8:], ln, a['outcome']))
                    diff = compare(a, b)
                    if diff or a['hang'] is not None:
                        state = 'removed' if ln is None else ('empty' if ln == 0 else 'prefix')
                        H.flag('cache-torn-entry-changes-result',
                               f'{op["op"]} by u{op["u"]} with cache entry {rel[-16:]} {state} ({ln} of {len(dict(entries)[rel])} bytes): '
                               f'{diff or "hang"} differs: with cache {a["outcome"]} {a["exc"]}, without {b["outcome"]} {b["exc"]}',
                               state=state, diff=diff or 'hang', exc=a['outcome'])
                        break
                for d, content in cache_before.items():
                    _load_dir(d, content)
                if H.viol:
                    break
            # ---- the plain comparison: cache as it is vs no cache
            fork.restore()
            a = run_command(H, op, i, cache_dirs, use_cache=True)
            evaluations += 1
            digests.add((op['op'], len(entries), a['outcome']))
            if len(samples) < 2:
                samples.append({'op': history._op_summary(op), 'cache_mode': mode, 'entries_before': len(entries), 'outcome': a['outcome']})
            diff = compare(a, b)
            if diff or a['hang'] is not None:
                H.flag('cache-changes-result', f'{op["op"]} by u{op["u"]} (cache mode {mode}, {len(entries)} entries): {diff or "hang"} differs: '
                       f'with cache {a["outcome"]} {a["exc"]} / without {b["outcome"]} {b["exc"]}; '
                       f'{_detail(a, b, diff)}', diff=diff or 'hang', op=op['op'], mode=mode)
                break
            # ---- model bookkeeping (continue from branch A's world)
            if op['op'] == 'snapshot' and 'value' in a:
                sm = history.SnapModel(a['value'][0], a['value'][1], op['u'], a['files'], op['at'], op.get('note'))
                H.snaps.append(sm)
            elif op['op'] == 'delete' and a['outcome'] == 'ok':
                for s in a['victims']:
                    for t in H.snaps:
                        if t.loc == s.loc:
                            t.alive = False
                H.probe('delete')
            elif op['op'] == 'clean':
                H.probe('clean')
        res = H.result()
        res['evaluations'] = max(evaluations, 1)
        res['digests'] = [repr(d) for d in digests]
        res['nontrivial'] = evaluations > 0
        if samples:
            res['sample'] = {'history': res['sample']['ops'], 'comparisons': samples}
        return res
    finally:
        W.close()


def _detail(a, b, diff):
    if diff == 'stdout':
        return f'A={a["stdout"][:3]} B={b["stdout"][:3]}'
    if diff == 'tree':
        ka, kb = set(a['tree']), set(b['tree'])
        return f'only with cache: {sorted(ka - kb)[:3]} only without: {sorted(kb - ka)[:3]}'
    if diff == 'store':
        ka, kb = set(a['store']), set(b['store'])
        return f'objects only with cache: {sorted(ka - kb)[:3]} only without: {sorted(kb - ka)[:3]}'
    return f'A={a.get(diff)!r:.200} B={b.get(diff)!r:.200}'


def shrink(case):
    for c in history.shrink_history(case):
        yield c
    if case['cache_mode'] != 'own':
        c = copy.deepcopy(case)
        c['cache_mode'] = 'own'
        yield c

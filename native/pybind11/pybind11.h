// Minimal stand-in for pybind11 (headers are not installed in this sandbox).
// Only what src/adapters.cpp uses: py::buffer / buffer_info and a PYBIND11_MODULE
// block that is parsed but never executed. The real binding is provided by glue.cpp.
#pragma once
#include <Python.h>
#include <cstddef>
namespace pybind11 {
struct buffer_info { void* ptr; Py_ssize_t size; };
struct buffer {
    const void* p; Py_ssize_t n;
    buffer(const void* p_, Py_ssize_t n_) : p(p_), n(n_) {}
    buffer_info request() const { return buffer_info{const_cast<void*>(p), n}; }
};
struct module_ {};
template <typename... A> struct init {};
template <typename T> struct class_ {
    template <typename... X> class_(X&&...) {}
    template <typename... X> class_& def(X&&...) { return *this; }
    template <typename... X> class_& def_readonly(X&&...) { return *this; }
    template <typename... X> class_& def_readwrite(X&&...) { return *this; }
};
}
#define PYBIND11_MODULE(name, var) static void verif_unused_pybind11_module_##name(pybind11::module_& var)

#include "pybind11/pybind11.h"
#include ADAPTERS_CPP
#include <cstring>
#include <cstdlib>
#include <new>
typedef struct { PyObject_HEAD gclmulchunker* c; } ChObj;
static int Ch_init(ChObj* self, PyObject* args, PyObject*) {
    PyObject *omin, *omax; Py_buffer key;
    if (!PyArg_ParseTuple(args, "O!O!y*", &PyLong_Type, &omin, &PyLong_Type, &omax, &key)) return -1;
    size_t mn = PyLong_AsSize_t(omin); if (PyErr_Occurred()) { PyBuffer_Release(&key); PyErr_SetString(PyExc_TypeError, "incompatible constructor arguments"); return -1; }
    size_t mx = PyLong_AsSize_t(omax); if (PyErr_Occurred()) { PyBuffer_Release(&key); PyErr_SetString(PyExc_TypeError, "incompatible constructor arguments"); return -1; }
    try { self->c = new gclmulchunker(mn, mx, py::buffer(key.buf, key.len)); }
    catch (const std::invalid_argument& e) { PyBuffer_Release(&key); PyErr_SetString(PyExc_ValueError, e.what()); return -1; }
    PyBuffer_Release(&key); return 0;
}
static void Ch_dealloc(ChObj* self) { delete self->c; Py_TYPE(self)->tp_free((PyObject*)self); }
static PyObject* Ch_next_cut(ChObj* self, PyObject* args) {
    Py_buffer b; int fin;
    if (!PyArg_ParseTuple(args, "y*p", &b, &fin)) return NULL;
    size_t r = self->c->next_cut(py::buffer(b.buf, b.len), fin != 0);
    PyBuffer_Release(&b); return PyLong_FromSize_t(r);
}
// verification-only: run next_cut on a private copy followed by caller-chosen "adjacent memory"
static PyObject* Ch_next_cut_arena(ChObj* self, PyObject* args) {
    Py_buffer b, tail; int fin;
    if (!PyArg_ParseTuple(args, "y*py*", &b, &fin, &tail)) return NULL;
    char* arena = (char*)malloc(b.len + tail.len + 64);
    memcpy(arena, b.buf, b.len); memcpy(arena + b.len, tail.buf, tail.len);
    size_t r = self->c->next_cut(py::buffer(arena, b.len), fin != 0);
    free(arena); PyBuffer_Release(&b); PyBuffer_Release(&tail); return PyLong_FromSize_t(r);
}
static PyObject* Ch_min(ChObj* s, void*) { return PyLong_FromSize_t(s->c->min_length); }
static PyObject* Ch_max(ChObj* s, void*) { return PyLong_FromSize_t(s->c->max_length); }
static PyMethodDef Ch_methods[] = { {"next_cut", (PyCFunction)Ch_next_cut, METH_VARARGS, ""}, {"_verif_next_cut_arena", (PyCFunction)Ch_next_cut_arena, METH_VARARGS, ""}, {NULL} };
static PyGetSetDef Ch_gs[] = { {"min_length", (getter)Ch_min, NULL, "", NULL}, {"max_length", (getter)Ch_max, NULL, "", NULL}, {NULL} };
static PyTypeObject ChType = { PyVarObject_HEAD_INIT(NULL, 0) };
static PyModuleDef mod = { PyModuleDef_HEAD_INIT, "_replicat_adapters", "shim build of src/adapters.cpp", -1, NULL };
PyMODINIT_FUNC PyInit__replicat_adapters(void) {
    ChType.tp_name = "_replicat_adapters._gclmulchunker"; ChType.tp_basicsize = sizeof(ChObj); ChType.tp_flags = Py_TPFLAGS_DEFAULT;
    ChType.tp_new = PyType_GenericNew; ChType.tp_init = (initproc)Ch_init; ChType.tp_dealloc = (destructor)Ch_dealloc; ChType.tp_methods = Ch_methods; ChType.tp_getset = Ch_gs;
    if (PyType_Ready(&ChType) < 0) return NULL;
    PyObject* m = PyModule_Create(&mod); Py_INCREF(&ChType); PyModule_AddObject(m, "_gclmulchunker", (PyObject*)&ChType);
    PyModule_AddIntConstant(m, "_verif_shim", 1); return m;
}
